HOOK_COMMITS = []

NOT_APPLICABLE = {}

META = {
 "C13": dict(
  text="Bounded-exhaustive enumeration of the quantifier's whole grid (segment size 1..16 x initial 0..64 x end..96, every index and block; Split start 0..40 x len 1..60 x chunk 1..16; all lists of <=4 ranges over 0..12) plus rapid-generated large values, judged by a validity predicate (non-empty, contiguous, disjoint, aligned, union exact, index lookups, out-of-range nil; Split/Merged preserve the covered block set).",
  design_ref="DESIGN.md section 3, C13",
  note="Pure functions; the predicate is re-derived from the property statement, not from the implementation. MergedBuckets is only required to preserve coverage.",
  technique="bounded exhaustive enumeration + rapid random generation against a validity predicate"),
}
