HOOK_COMMITS = ["74cfa34e", "caf03176", "dc5bb3c7", "4c1fecd0", "0c89225c"]

NOT_APPLICABLE = {}

META = {
 "C01": dict(
  text="Differential random testing end to end: generated programs (synthetic module runtime 'verifdsl' registered through wasm.RegisterModuleFactory, real module hashes, real cache files, real tier1/tier2 services in process) are run as 1..3 requests in sequence on one cache directory with generated mode, range, segment size, worker count, finality point and steered job completion order; every run is compared with the single sequential execution L the statement defines (dev mode, empty cache, one huge segment): order, identity of every delivered (number, id, payload), omissions only of empty outputs below the hand-off in production mode, final stores typed-equal.",
  design_ref="DESIGN.md section 3, C01",
  note="The synthetic modules hash the typed values they read (set:/sum: tags stripped, numbers canonical) because squashed and sequential stores legitimately differ in float text. The parallel phase runs on the real event loop: job completion order is steered, not owned. Linear blocks are delivered as final (new+irreversible).",
  technique="rapid random generation, differential against the sequential reference execution"),
 "C02": dict(
  text="Differential + model-based random testing: for every (policy, value type) kind the host interface admits, generated block/operation lists (arbitrary ordinals, delete_prefix interleaved, shared-prefix keys) are executed through the real host calls sequentially on one FullKV and per segment on PartialKVs that are saved, reloaded and merged in order; both results are compared typed with each other and with an independent reference model.",
  design_ref="DESIGN.md section 3, C02",
  note="Numeric arguments are chosen so that arithmetic is exact and order-independent (no float rounding); comparison is typed (numbers by value, set:/sum: tag stripped) because sequential and merge paths format floats differently. Files go through an uncompressed local dstore.",
  technique="rapid random generation, differential (sequential vs squashed) + reference model"),
 "C03": dict(
  text="Store level: stateful random testing of block/undo/redo/final histories (ApplyDeltasReverse with the block's own deltas, blocks re-executed after being undone), content and size compared with a model after every step. End to end: random fork trees with arbitrary arrival order and finality progress turned into steps by the real fork resolver, fed to the real tier1 pipeline in both modes; stores compared with a fork-free execution of the canonical chain after every step and a simulated client checked for the three client-side clauses of the statement.",
  design_ref="DESIGN.md section 3, C03",
  note="End to end, generated fork trees go through the real bstream/forkable (flip-flops re-apply the same block ids) into a dev-mode and a production-mode request whose start equals the hand-off; after every new/undo step the stores are compared (content typed, size exact) with a fork-free execution of the current canonical chain, and a simulated client checks the undo signals and converges on the canonical outputs. Forks directly at the initial LIB are not generated (the resolver, set up with an inclusive initial LIB as in the repository's fork test, reports a nil junction there).",
  technique="rapid stateful history machine (store level) + rapid-generated fork histories through the real fork resolver, differential against fork-free execution"),
 "C04": dict(
  text="Random end-to-end requests on generated programs judged by a monitor over the response sequence (session first, every block in range, strictly increasing, no duplicate or gap across the hand-off, every block from the hand-off on and every block in dev mode delivered, cursor designates the message's block) and by a metamorphic resume relation: a new request started from the cursor of a delivered message (sampled positions in quick, every position in thorough; same or empty cache) must yield exactly the messages that followed; injected deterministic failures must end the stream with an error and nothing after it.",
  design_ref="DESIGN.md section 3, C04",
  note="All delivered blocks are final in this world (linear part emitted as new+irreversible), as the statement requires for resumption; cursors on non-final blocks need the hub-based resolver the in-process service does not have.",
  technique="rapid random generation, sequence monitor + metamorphic resume-from-cursor relation"),
 "C05": dict(
  text="Schedule-owning random testing: the real Scheduler, Stages, WorkerPool and cached-output Walker are assembled exactly as BuildParallelProcessor assembles them and driven by a single-threaded loop in which the generator draws which pending command (segment job on the real tier2, store merge, cached-output download, schedule/try-merge message) completes next, from generated initial cache states; invariants are checked after every step (no panic or invalid transition, a started job finds every lower-stage snapshot it loads, merges consecutive and unique per stage, Completed is absorbing, bounded termination, never stalled) and at quit (no error, stores at the hand-off and streamed outputs equal to the sequential execution, every requested output file written).",
  design_ref="DESIGN.md section 3, C05",
  note="A heavy command runs atomically when it is drawn and asynchronous snapshot writes are quiesced before each heavy command, so the write-after-merge timing race is outside this check; liveness is termination within a step bound on explored schedules. Half of the cases queue the messages of completed commands FIFO as loop.EventLoop does (handling the oldest message is a choice of its own); one case in three owns one thread interleaving of the squasher (the racing snapshot read of getPartialOrFullKV is held and completed at a chosen later point, world/lateread.go). The real event loop with steered job order is exercised by C01/C07.",
  technique="rapid-driven schedule exploration of the real scheduler (owned event loop) with step invariants"),
 "C06": dict(
  text="Metamorphic random testing of the module identifier: on generated valid graphs, one single-field mutation of one module must change exactly the identifiers of that module and of its descendants (harness-computed reachability), and the identity transformations (consistent rename incl. alias prefixes, insertion of unrelated modules/binaries, binary re-indexing) must change none; recomputation, reverse query order and exec.NewOutputModuleGraph must agree.",
  design_ref="DESIGN.md section 3, C06",
  note="Three input-related mutation classes that leave the identifier unchanged are recorded findings (known_findings.json) and excluded by signature; update policy and value type are not in the property's list and are not asserted. Alias import is checked both as a rename transformation and through the real manifest reader (generated .spkg imported by a generated YAML manifest: prefixModules, reindexAndMergePackage).",
  technique="rapid random generation, metamorphic relations over single-field mutations"),
 "C07": dict(
  text="Random + bounded-exhaustive exploration of cache states: the universe is the set of real files a complete run leaves plus the partial stores harvested after each segment job plus truncated debris under dstore's temporary name; a case copies a subset (crash-point prefixes of the write order, single evictions, random subsets; thorough enumerates all 2^n subsets for universes of <= 9 files) into a fresh directory and re-runs the request: it must complete, its stream and final stores must satisfy the C01 oracle against the sequential execution, and every file it leaves that the clean run also leaves must decode to equivalent content.",
  design_ref="DESIGN.md section 3, C07",
  note="Equivalence of files is judged on the files both runs leave (a run that finds later snapshots legitimately skips earlier ones). Truncated files carry dstore's '.tmp' suffix, which is how a half-written file looks on the local store; a truncated file under its final name cannot occur with dstore's write-then-rename.",
  technique="rapid random generation + exhaustive subset enumeration, differential against the sequential reference"),
 "C08": dict(
  text="Model-based random testing of get_first/get_last/get_at/has_* (direct and through wasm.Call.Do*) on every key x every ordinal around each operation, and of the block's deltas folded over the pre-block content, for every kind.",
  design_ref="DESIGN.md section 3, C08",
  note="Reads are only required on full stores (the only stores handed to readers).",
  technique="rapid random generation against a reference model applied in stable ordinal order"),
 "C09": dict(
  text="Round-trip/differential random testing: the operation log read after Flush is replayed with Reset+ApplyOps on a twin store in the same pre-state (rebuilt or loaded from the saved snapshot); deltas (proto-equal), content (bytewise), size, DeletedPrefixes (as a set) and the squash of the replayed partial are compared with the original execution.",
  design_ref="DESIGN.md section 3, C09",
  note="The end-to-end use of the cached branch (RunModule) is exercised by the cache-subset checks, not here.",
  technique="rapid random generation, differential original-vs-replay"),
 "C10": dict(
  text="Round-trip random testing through the real Save/write/Load path for full and partial stores (content built through real operations: arbitrary valid UTF-8 keys, binary values incl. empty and large, delete prefixes, up to thousands of entries) and of the file naming: generated sets of full/partial snapshots with ranges up to 10 digits are saved and must be listed by ListSnapshotFiles(below) with the right range and kind for every boundary value of below, with nothing unsaved returned.",
  design_ref="DESIGN.md section 3, C10",
  note="Keys are valid UTF-8 (a key that is not cannot pass the operation log, whose protobuf string fields reject it); raw binary keys are exercised at the marshaller level in C18. Local uncompressed dstore. Snapshots are loaded into a fresh store, back into the store object that saved them, and twice into one object; a block is applied to the store between Save and the writer's Write, and the file must hold the content at the time of Save.",
  technique="rapid random generation, round-trip + completeness/soundness of listing"),
 "C11": dict(
  text="Stateful random testing: histories of blocks, undos, redos, finals, merges of saved+reloaded partials and save/load cycles with the total size limit lowered through a verif hook; after every step SizeBytes()==sum(len key+len value); Flush rejects as too big iff the content exceeds the limit right after some delta.",
  design_ref="DESIGN.md section 3, C11",
  note="The limit is only enforced by ApplyDelta (set/create paths), so the rejection oracle is stated for Flush; Merge itself is only required to keep the accounting exact.",
  technique="rapid stateful (history machine) with size invariant and rejection oracle"),
 "C14": dict(
  text="Random constructive generation of module DAGs (every kind, get/deltas store inputs, block filters, params-only and clock-only modules, arbitrary initial blocks), every map tried as output; a validity predicate over the staged layers (each needed module exactly once, strictly after all it reads, homogeneous layers, store layers close stages, unneeded modules absent) and the acceptance/rejection of 'no input at initial block', with a termination watchdog.",
  design_ref="DESIGN.md section 3, C14",
  note="'params plus only-later modules' is accepted either way (the statement does not say whether params counts as an existing input).",
  technique="rapid random generation against a validity predicate"),
 "C15": dict(
  text="Differential random testing of the two filter evaluators on generated expressions (and / implicit and / or / parentheses, bare and quoted keys) and key-to-block assignments: bitmap result contains b <=> per-block evaluation on b's own keys <=> the meaning of the harness' AST; BlockIndex.Skip vs SkipFromKeys; input bitmaps unchanged across repeated and interleaved evaluations; '-' operator rejected; thorough adds coverage-guided native fuzzing of the parser string with the same differential inside the target.",
  design_ref="DESIGN.md section 3, C15",
  note="End to end (TestC15Index): programs with several filtered modules sharing one index module are run in production mode with the index being built by the jobs, with only the index files present, and with a subset of them, each compared with the sequential dev-mode execution, in which every filtered module must have run exactly on the blocks whose keys satisfy its filter. Index files are only read by tier2, so the index-present scenarios are back-filled production ranges. One case in eight injects transient write failures of the object store (retried by the code) while the files are built.",
  technique="rapid random generation, differential (bitmap vs per-block evaluator) + native go fuzzing"),
 "C16": dict(
  text="Fault-injection random testing end to end: the real work.RemoteWorker talks to the exported Tier2Service.ProcessRange through a fake gRPC client/stream pair; generated fault plans (1..3 transient faults by call number: error before the call, 'service currently overloaded', stream dropped mid-way with the server context cancelled (also with grpc-go's 'error reading from server: EOF' text and as Canceled), failure while the stream is set up, stream dropped after the job wrote its files) must leave the outputs identical to the sequential execution; a generated deterministic module failure at block k must end the request with an error that tier1 maps to invalid_argument, with only correct blocks < k delivered, nothing after the error and no endless retry.",
  design_ref="DESIGN.md section 3, C16",
  note="Every retry sleeps >= 1 s in derr's real back-off, so cases run in concurrent batches of 12 and counts are modest. Only faults an in-process fake stream can model (no half-open connections or deadlines).",
  technique="rapid random generation of fault plans (fault injection), differential against the sequential reference"),
 "C17": dict(
  text="Structure-aware random generation of tier1 and tier2 requests with every field of every module free, plus valid generated graphs with one field broken, run through the server's sequence (ValidateTier1/2Request, exec.NewOutputModuleGraph incl. hashing and staging, BuildRequestDetails, BuildTier1RequestPlan): every call must return without panic, within 10 s, allocating < 256 MiB, and a rejection caused by the request must reach the client as invalid_argument (the error is wrapped as Tier1Service.blocks wraps it and mapped with the service's own toConnectError).",
  design_ref="DESIGN.md section 3, C17",
  note="Requests are encoded to the wire and decoded again, so only shapes a client can actually send are judged. TestC17Tier2 hands segment-job requests with a free stage number, segment number, segment size and output module to the exported Tier2Service.ProcessRange in process: nil or a status error, no panic, no hang, out-of-range stages rejected as invalid_argument (found and repaired: 29adf1e0).",
  technique="rapid structure-aware random generation with crash/hang/allocation oracle; thorough tier adds native coverage-guided fuzzing of the wire bytes (FuzzC17Request)"),
 "C18": dict(
  text="Differential round-trip random testing of the hand-written codecs against google.golang.org/protobuf: Map.MarshalFast -> proto.Unmarshal(Array), proto.Marshal(Array) -> Map.UnmarshalFast, fast round trip; every store marshaller reads back what it wrote; VTproto/ProtoingFast bytes decode with proto.Unmarshal and proto.Marshal bytes decode with the VTproto decoder; reported size == sum(len k+len v).",
  design_ref="DESIGN.md section 3, C18",
  note="Cross-decoding with the standard codec is only required for valid UTF-8 strings (the standard codec rejects others by design); raw binary keys are checked on the self round trips of VTproto and Binary.",
  technique="rapid random generation, differential against the standard protobuf codec + round trips; thorough tier adds native coverage-guided fuzzing (FuzzC18Outputs, FuzzC18Stores: bytes -> standard decode -> standard encode -> hand-written decoders)"),
 "C12": dict(
  text="Bounded-exhaustive enumeration of a boundary-biased sub-grid of the quantifier (mode x segment size x store/output initial blocks, start, stop, final block around segment boundaries) plus rapid generation over the full grid and over cursor shapes with a fake fork resolver; pipeline.BuildRequestDetails and plan.BuildTier1RequestPlan are called as Tier1Service.blocks calls them and judged by an oracle restating the property (stores built to the hand-off, cached outputs read for [start,min(hand-off,stop)), linear [hand-off,stop), gate, no gap/overlap, whole segments, impossible requests rejected, forked cursor -> undo for the junction and restart after it).",
  design_ref="DESIGN.md section 3, C12",
  note="The glue between the two functions (start==stop check, ValidateRequestStartBlock, scheduleStores) is restated in the harness; requests whose resolved start lies beyond the stop block (cursor on the stop block) are not judged.",
  technique="bounded exhaustive enumeration + rapid random generation against a restated specification"),
 "C13": dict(
  text="Bounded-exhaustive enumeration of the quantifier's whole grid (segment size 1..16 x initial 0..64 x end..96, every index and block; Split start 0..40 x len 1..60 x chunk 1..16; all lists of <=4 ranges over 0..12) plus rapid-generated large values, judged by a validity predicate (non-empty, contiguous, disjoint, aligned, union exact, index lookups, out-of-range nil; Split/Merged preserve the covered block set).",
  design_ref="DESIGN.md section 3, C13",
  note="Pure functions; the predicate is re-derived from the property statement, not from the implementation. MergedBuckets is only required to preserve coverage.",
  technique="bounded exhaustive enumeration + rapid random generation against a validity predicate"),
}
