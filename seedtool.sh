#!/bin/bash
# seedtool.sh confirm <worktree>            : demo fails with the change, passes without; suite passes with the change
# seedtool.sh try <patch.diff> <prop> [...] : apply the patch to a scratch worktree, run the quick checks against it
export GOFLAGS=-mod=mod GOPROXY=off GOSUMDB=off GOTOOLCHAIN=local
set -u
case "$1" in
confirm)
  wt=$2; cd $wt || exit 2
  git apply -R --check _out/patch.diff 2>/dev/null || { git checkout -q -- . ; git apply _out/patch.diff || { echo "PATCH DOES NOT APPLY"; exit 2; }; }
  bash _out/demo.sh >/tmp/seed_demo_with.$$.log 2>&1; with=$?
  git apply -R _out/patch.diff
  bash _out/demo.sh >/tmp/seed_demo_without.$$.log 2>&1; without=$?
  git apply _out/patch.diff
  # suite with the change, demo files moved aside
  mkdir -p /tmp/seed_aside.$$; find . -name 'verif_seed_demo*' -not -path './_out/*' -exec mv {} /tmp/seed_aside.$$/ \; 
  go build ./... >/tmp/seed_suite.$$.log 2>&1 && go test -vet=off -count=1 ./... >>/tmp/seed_suite.$$.log 2>&1
  fails=$(grep -c "^FAIL\s" /tmp/seed_suite.$$.log)
  failing=$(grep "^FAIL\s" /tmp/seed_suite.$$.log | awk '{print $2}' | tr '\n' ' ')
  echo "demo_with_change=$with (want !=0) demo_without=$without (want 0) failing_packages=[$failing] (want only .../info)"
  ;;
try)
  # builds the checks against a scratch worktree of /repo with the patch applied (VERIF_REPO), so /repo itself
  # is never touched and checks running against it are not disturbed
  patch=$2; shift 2
  wt=/tmp/seedrepo.$$
  git -C /repo worktree add -q --detach $wt HEAD || exit 2
  git -C $wt apply $patch || { echo "PATCH DOES NOT APPLY"; git -C /repo worktree remove --force $wt; exit 2; }
  for p in "$@"; do
    (cd /verif && VERIF_REPO=$wt BUILD_TAG=seed ./check $p quick 2>&1 | grep -E "^VIOLATION|^property=|^INCONCLUSIVE|BUILD-FAILED" | sort -u -k1,1 | head -6)
  done
  git -C /repo worktree remove --force $wt; git -C /repo worktree prune
  ;;
save)
  # seedtool.sh save <worktree> <name> <checks_run text>   (after confirm + try)
  wt=$2; name=$3; txt=$4; d=/verif/seeded/$name; mkdir -p $d
  cp $wt/_out/patch.diff $d/patch.diff; cp $wt/_out/demo.sh $d/demo.sh
  for f in $wt/_out/*_test.go; do cp $f $d/$(basename $f).txt; done
  python3 - "$wt/_out/meta.json" "$d/meta.json" "$txt" <<'PY'
import json,sys
m=json.load(open(sys.argv[1]))
m["confirmed"]={"demo_fails_with_change":True,"demo_passes_without":True,"suite_passes_with_change_except_network_tests_in_info":True,"by":"seedtool.sh confirm (run by the main session in the agent's scratch worktree)"}
m["checks_run"]=sys.argv[3]
json.dump(m,open(sys.argv[2],"w"),indent=1)
PY
  ;;
esac
