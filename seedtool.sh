#!/bin/bash
# seedtool.sh confirm <worktree>            : demo fails with the change, passes without; suite passes with the change
# seedtool.sh try <patch.diff> <prop> [...] : apply the patch to /repo, run the quick checks, revert
export GOFLAGS=-mod=mod GOPROXY=off GOSUMDB=off GOTOOLCHAIN=local
set -u
case "$1" in
confirm)
  wt=$2; cd $wt || exit 2
  git apply -R --check _out/patch.diff 2>/dev/null || { git checkout -q -- . ; git apply _out/patch.diff || { echo "PATCH DOES NOT APPLY"; exit 2; }; }
  bash _out/demo.sh >/tmp/seed_demo_with.log 2>&1; with=$?
  git apply -R _out/patch.diff
  bash _out/demo.sh >/tmp/seed_demo_without.log 2>&1; without=$?
  git apply _out/patch.diff
  # suite with the change, demo files moved aside
  mkdir -p /tmp/seed_aside; find . -name 'verif_seed_demo*' -not -path './_out/*' -exec mv {} /tmp/seed_aside/ \; 
  go build ./... >/tmp/seed_suite.log 2>&1 && go test -vet=off -count=1 ./... >>/tmp/seed_suite.log 2>&1
  fails=$(grep -c "^FAIL\s" /tmp/seed_suite.log)
  failing=$(grep "^FAIL\s" /tmp/seed_suite.log | awk '{print $2}' | tr '\n' ' ')
  echo "demo_with_change=$with (want !=0) demo_without=$without (want 0) failing_packages=[$failing] (want only .../info)"
  ;;
try)
  patch=$2; shift 2
  git -C /repo status --short | grep -q . && { echo "/repo not clean"; exit 2; }
  git -C /repo apply $patch || { echo "PATCH DOES NOT APPLY TO /repo"; exit 2; }
  for p in "$@"; do
    (cd /verif && ./check $p quick 2>&1 | grep -E "^VIOLATION|^property=|^INCONCLUSIVE|BUILD-FAILED" | head -5)
  done
  git -C /repo checkout -- . ; git -C /repo status --short
  ;;
esac
