#!/usr/bin/env python3
"""Run the repository's pinned test suite with the verif guard OFF and compare with BASELINE.json's stable_pass set."""
import json, subprocess, sys, os
env = dict(os.environ, GOFLAGS="-mod=mod", GOPROXY="off", GOSUMDB="off", GOTOOLCHAIN="local")
p = subprocess.run(["go", "test", "-json", "-vet=off", "-count=1", "-timeout", "25m", "./..."], cwd="/repo", env=env, stdout=subprocess.PIPE, stderr=subprocess.STDOUT, text=True)
passed = set()
for line in p.stdout.splitlines():
    try:
        e = json.loads(line)
    except ValueError:
        continue
    if e.get("Action") == "pass" and e.get("Test"):
        passed.add("%s::%s" % (e["Package"], e["Test"]))
want = set(json.load(open("/root/.vp/BASELINE.json"))["stable_pass"])
missing = sorted(want - passed)
print("stable_pass=%d passed_now=%d missing=%d" % (len(want), len(passed), len(missing)))
for m in missing[:50]:
    print("MISSING", m)
subprocess.run(["git", "-C", "/repo", "status", "--short"])
sys.exit(1 if missing else 0)
