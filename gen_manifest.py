#!/usr/bin/env python3
"""Regenerate MANIFEST.json from checks_config.py and manifest_meta.py."""
import json, os, sys
sys.path.insert(0, os.path.dirname(os.path.abspath(__file__)))
from checks_config import CHECKS
from manifest_meta import META, HOOK_COMMITS, NOT_APPLICABLE

props = [json.loads(l)["id"] for l in open("/verif/properties.jsonl")]
checks = []
for pid in props:
    if pid not in CHECKS:
        continue
    m = META[pid]
    checks.append(dict(
        property_id=pid,
        quick_cmd="./check %s quick" % pid,
        thorough_cmd="./check %s thorough" % pid,
        evidence_file="/verif/evidence/%s.json" % pid,
        replay_cmd_template="./check %s --replay {path}" % pid,
        engine="rapid-harness",
        level_claimed=dict(category="exploration", text=m["text"], design_ref=m["design_ref"]),
        level_note=m["note"],
        technique=m["technique"],
    ))
na = [dict(property_id=p, reason=NOT_APPLICABLE.get(p, "no check built yet in this round; planned in DESIGN.md")) for p in props if p not in CHECKS]
manifest = dict(
    version=1,
    setup_cmd="./check --build",
    hooks=dict(guard="verif", enable="go test -tags verif (the harness module /verif/harness replaces github.com/streamingfast/substreams by /repo)",
               baseline_off_cmd="cd /repo && GOFLAGS=-mod=mod go test -vet=off -count=1 -timeout 25m ./...",
               source_commits=HOOK_COMMITS, add_only=True),
    engines=[dict(name="rapid-harness", path="/verif/harness", serves_properties=[c["property_id"] for c in checks],
                  kind_free_text="Go test binaries using pgregory.net/rapid v1.3.0 (random + stateful generation, shrinking), bounded exhaustive enumeration and native go fuzzing, driven by /verif/check")],
    checks=checks,
    notes="Property-based testing and fuzzing only. Every check rebuilds the harness against /repo's working tree. Exit 2 = inconclusive.",
    not_applicable=na,
)
json.dump(manifest, open("/verif/MANIFEST.json", "w"), indent=1)
print("checks:", len(checks), "not claimed:", len(na))
