"""Which tests decide which property, and their budgets per tier.

kind: rapid (case count = -rapid.checks), loop (plain Go test; enumerations shard
themselves with VERIF_SHARD/VERIF_NSHARDS and read VERIF_CASES), fuzz (native go
fuzzing, 'checks' = seconds).
"""

def rapid(pkg, test, q, t, qs=1, ts=16, replay=None, timeout=900, ttimeout=7200, env=None, **kw):
    d = dict(pkg=pkg, test=test, kind="rapid", replay=replay or test + "Replay",
             quick=dict(checks=q, shards=qs, timeout=timeout), thorough=dict(checks=t, shards=ts, timeout=ttimeout))
    if env:
        d["env"] = env
    d.update(kw)
    return d

def fuzz(pkg, test, seconds, parallel=8):
    """Native go fuzzing, thorough tier only ('checks' = seconds of fuzzing)."""
    return dict(pkg=pkg, test=test, kind="fuzz", replay=None, thorough_only=True,
                quick=dict(checks=0, shards=0), thorough=dict(checks=seconds, shards=1, timeout=seconds + 600, parallel=parallel))

def loop(pkg, test, qs=4, ts=16, replay=None, timeout=900, ttimeout=7200, q=1, t=1, env=None):
    d = dict(pkg=pkg, test=test, kind="loop", replay=replay,
             quick=dict(checks=q, shards=qs, timeout=timeout), thorough=dict(checks=t, shards=ts, timeout=ttimeout))
    if env:
        d["env"] = env
    return d

CHECKS = {
    "C01": dict(tests=[rapid("e2e", "TestC01", 960, 32000, qs=16, ts=16, timeout=1200, ttimeout=14000),
                       # the same on a chain whose first streamable block is 3 (process-wide setting: own processes)
                       rapid("e2e", "TestC01FSB", 320, 8000, qs=16, ts=16, timeout=1200, ttimeout=14000, env={"VERIF_FSB": "3"})]),
    "C02": dict(tests=[rapid("storeprops", "TestC02", 24000, 2400000, qs=8)]),
    "C03": dict(tests=[
        rapid("storeprops", "TestC03Store", 24000, 1600000, qs=8, replay="TestC03StoreReplay"),
        rapid("e2e", "TestC03Forks", 640, 32000, qs=8, ts=16, timeout=1200, ttimeout=14000, replay="TestC03ForksReplay"),
        rapid("e2e", "TestC03ForksBackfill", 320, 16000, qs=8, ts=16, timeout=1200, ttimeout=14000, replay="TestC03ForksBackfillReplay"),
    ]),
    "C04": dict(tests=[
        rapid("e2e", "TestC04", 320, 9600, qs=16, ts=16, timeout=1200, ttimeout=14000, replay="TestC04Replay"),
        dict(pkg="e2e", test="TestC04AllPositions", kind="rapid", replay="TestC04AllPositionsReplay", thorough_only=True,
             quick=dict(checks=0, shards=0), thorough=dict(checks=1600, shards=16, timeout=14000)),
    ]),
    "C05": dict(tests=[rapid("e2e", "TestC05", 800, 48000, qs=16, ts=16, timeout=1200, ttimeout=14000)]),
    "C06": dict(tests=[
        rapid("pure", "TestC06", 40000, 4000000, qs=8),
        rapid("pure", "TestC06Alias", 4000, 200000, qs=8, replay="TestC06AliasReplay"),
    ]),
    "C07": dict(tests=[rapid("e2e", "TestC07", 160, 3200, qs=16, ts=16, timeout=1200, ttimeout=14000)]),
    "C08": dict(tests=[rapid("storeprops", "TestC08", 16000, 1600000, qs=8)]),
    "C09": dict(tests=[rapid("storeprops", "TestC09", 24000, 1600000, qs=8)]),
    "C10": dict(tests=[rapid("storeprops", "TestC10", 4000, 320000, qs=8)]),
    "C11": dict(tests=[rapid("storeprops", "TestC11", 24000, 1600000, qs=8)]),
    "C14": dict(tests=[
        rapid("pure", "TestC14", 24000, 2400000, qs=4),
        rapid("pure", "TestC14InvalidInit", 16000, 1600000, qs=4, replay="TestC14InvalidInitReplay"),
    ]),
    "C15": dict(tests=[
        rapid("pure", "TestC15Eval", 40000, 4000000, qs=8, replay="TestC15EvalReplay"),
        rapid("e2e", "TestC15Index", 320, 16000, qs=16, ts=16, timeout=1200, ttimeout=14000, replay="TestC15IndexReplay", shrinktime="20s"),
        fuzz("pure", "FuzzC15Parser", 120),
    ]),
    "C16": dict(tests=[rapid("e2e", "TestC16", 32, 1600, qs=16, ts=16, timeout=1500, ttimeout=14000, replay="(TestC16Replay|TestC16BatchReplay)", shrinktime="30s")]),  # one rapid check = a batch of 12 cases run concurrently
    "C17": dict(tests=[
        rapid("pure", "TestC17", 32000, 3200000, qs=8, shrinktime="8s"),
        rapid("e2e", "TestC17Tier2", 480, 16000, qs=16, ts=16, timeout=900, ttimeout=7200, replay="TestC17Tier2Replay", shrinktime="20s"),  # a hanging request costs 10 s per attempt: do not shrink for long
        fuzz("pure", "FuzzC17Request", 120),
    ]),
    "C18": dict(tests=[
        rapid("storeprops", "TestC18Outputs", 8000, 800000, qs=4, replay="TestC18OutputsReplay"),
        rapid("storeprops", "TestC18Stores", 8000, 800000, qs=4, replay="TestC18StoresReplay"),
        fuzz("storeprops", "FuzzC18Outputs", 90),
        fuzz("storeprops", "FuzzC18Stores", 90),
    ]),
    "C12": dict(tests=[
        loop("pure", "TestC12Grid", qs=12, ts=16, replay="TestC12GridReplay"),
        rapid("pure", "TestC12Random", 200000, 20000000, qs=2, replay="TestC12RandomReplay"),
        rapid("pure", "TestC12Cursor", 100000, 10000000, qs=2, replay="TestC12CursorReplay"),
    ]),
    "C13": dict(tests=[
        loop("pure", "TestC13SegExhaustive", qs=4, ts=8, replay="TestC13SegReplay"),
        rapid("pure", "TestC13SegRandom", 20000, 4000000, qs=2, replay="TestC13SegRandomReplay"),
        loop("pure", "TestC13SplitExhaustive", qs=2, ts=4, replay="TestC13SplitReplay"),
        loop("pure", "TestC13MergedExhaustive", qs=4, ts=8, replay="TestC13MergedReplay"),
        rapid("pure", "TestC13MergedRandom", 20000, 2000000, qs=2, replay="TestC13MergedRandomReplay"),
    ]),
}

ASSUMPTIONS = {
    "*": [
        "the harness is rebuilt against /repo's working tree with -tags verif; only exported API and the verif-tagged accessors are used",
        "held on the generated cases only: nothing here establishes absence of violations",
    ],
    "C13": ["ranges are non-empty and end > initial, as every caller constructs them"],
}
