package storeprops

// C08 — store reads honour ordinals; deltas fold to the post-block content.

import (
	"fmt"
	"sort"
	"testing"

	pbsubstreams "github.com/streamingfast/substreams/pb/sf/substreams/v1"
	"github.com/streamingfast/substreams/wasm"
	"pgregory.net/rapid"

	"verif/ev"
	"verif/sdsl"
)

type c08Case struct {
	Kind sdsl.Kind   `json:"kind"`
	Pre  [][]sdsl.Op `json:"pre"`  // blocks executed before (pre-block content)
	Ops  []sdsl.Op   `json:"ops"`  // the block under test
	Far  []uint64    `json:"far"`  // extra query ordinals
	Next []sdsl.Op   `json:"next"` // a following block: the reads must hold there too
}

func genC08(t *rapid.T, kind sdsl.Kind) c08Case {
	c := c08Case{Kind: kind}
	c.Pre = sdsl.GenBlocks(t, kind, 0, 2, 5, 10)
	maxOrd := rapid.SampledFrom([]uint64{2, 5, 5, 12}).Draw(t, "maxord")
	n := rapid.IntRange(0, 8).Draw(t, "nops")
	if rapid.IntRange(0, 4).Draw(t, "bigblock") == 0 {
		// long blocks with few distinct ordinals: many ties issued out of order (sorting algorithms change behaviour with length)
		n = rapid.IntRange(13, 70).Draw(t, "nbig")
		maxOrd = rapid.SampledFrom([]uint64{1, 2, 4}).Draw(t, "maxordbig")
	}
	focus := ""
	if rapid.IntRange(0, 3).Draw(t, "focus") > 0 {
		focus = rapid.SampledFrom(sdsl.Keys[:4]).Draw(t, "focuskey") // several ops on one key, ordinals in any order
	}
	for i := 0; i < n; i++ {
		o := sdsl.GenOp(t, kind, maxOrd, 15)
		if focus != "" && !o.Del && rapid.Bool().Draw(t, "onfocus") {
			o.Key = sdsl.Bin(focus)
		}
		c.Ops = append(c.Ops, o)
	}
	c.Far = []uint64{rapid.Uint64Range(13, 1<<40).Draw(t, "far"), ^uint64(0)}
	if rapid.Bool().Draw(t, "hasnext") {
		m := rapid.IntRange(0, 4).Draw(t, "nnext")
		for i := 0; i < m; i++ {
			c.Next = append(c.Next, sdsl.GenOp(t, kind, maxOrd, 15))
		}
	}
	return c
}

func mget(m *sdsl.Model, key string) (sdsl.MVal, bool) {
	v, ok := m.KV[key]
	return v, ok
}

func checkReadsOneBlock(c c08Case, e *env, full interface {
	GetFirst(string) ([]byte, bool)
	HasFirst(string) bool
	GetLast(string) ([]byte, bool)
	HasLast(string) bool
	GetAt(uint64, string) ([]byte, bool)
	HasAt(uint64, string) bool
	GetDeltas() []*pbsubstreams.StoreDelta
}, reader *wasm.Call, pre *sdsl.Model, ops []sdsl.Op, far []uint64, preKV map[string][]byte, postKV map[string][]byte) *ev.Failure {
	k := c.Kind
	post := pre.Clone()
	post.ApplyBlock(ops)

	keys := append([]string{}, sdsl.Keys...)
	keys = append(keys, "zz", "abcd")
	sorted := sdsl.SortOps(ops)
	ordSet := map[uint64]bool{0: true}
	for _, o := range ops {
		ordSet[o.Ord] = true
		ordSet[o.Ord+1] = true
		if o.Ord > 0 {
			ordSet[o.Ord-1] = true
		}
	}
	for _, f := range far {
		ordSet[f] = true
	}
	var ords []uint64
	for o := range ordSet {
		ords = append(ords, o)
	}
	sort.Slice(ords, func(i, j int) bool { return ords[i] < ords[j] })

	cmp := func(what, key string, got []byte, found bool, want sdsl.MVal, wantFound bool) *ev.Failure {
		if found != wantFound {
			return ev.Failf(what+"/found", "%s(%q): found=%v want %v (model value %v)", what, key, found, wantFound, want)
		}
		if found && !sdsl.EqualStore(k, got, want) {
			return ev.Failf(what+"/value", "%s(%q) = %q want %v", what, key, got, want)
		}
		return nil
	}

	for _, key := range keys {
		wv, wf := mget(pre, key)
		got, found := full.GetFirst(key)
		if f := cmp("get_first", key, got, found, wv, wf); f != nil {
			return f
		}
		if has := full.HasFirst(key); has != found {
			return ev.Failf("has_first!=get_first", "has_first(%q)=%v but get_first found=%v", key, has, found)
		}
		g2, f2 := reader.DoGetFirst(0, key)
		if f := cmp("host.get_first", key, g2, f2, wv, wf); f != nil {
			return f
		}
		if has := reader.DoHasFirst(0, key); has != wf {
			return ev.Failf("host.has_first", "host has_first(%q)=%v want %v", key, has, wf)
		}

		wv, wf = mget(post, key)
		got, found = full.GetLast(key)
		if f := cmp("get_last", key, got, found, wv, wf); f != nil {
			return f
		}
		if has := full.HasLast(key); has != found {
			return ev.Failf("has_last!=get_last", "has_last(%q)=%v but get_last found=%v", key, has, found)
		}
		g2, f2 = reader.DoGetLast(0, key)
		if f := cmp("host.get_last", key, g2, f2, wv, wf); f != nil {
			return f
		}
		if has := reader.DoHasLast(0, key); has != wf {
			return ev.Failf("host.has_last", "host has_last(%q)=%v want %v", key, has, wf)
		}
	}

	// get_at / has_at at every interesting ordinal: model = ops with ordinal <= ord, stable order
	for _, ord := range ords {
		at := pre.Clone()
		var upto []sdsl.Op
		for _, o := range sorted {
			if o.Ord <= ord {
				upto = append(upto, o)
			}
		}
		at.ApplyBlock(upto)
		for _, key := range keys {
			wv, wf := mget(at, key)
			got, found := full.GetAt(ord, key)
			if f := cmp("get_at", key, got, found, wv, wf); f != nil {
				f.Msg = fmt.Sprintf("ord=%d: %s", ord, f.Msg)
				return f
			}
			if has := full.HasAt(ord, key); has != found {
				return ev.Failf("has_at!=get_at", "ord=%d: has_at(%q)=%v but get_at found=%v (value %q)", ord, key, has, found, got)
			}
			g2, f2 := reader.DoGetAt(0, ord, key)
			if f := cmp("host.get_at", key, g2, f2, wv, wf); f != nil {
				f.Msg = fmt.Sprintf("ord=%d: %s", ord, f.Msg)
				return f
			}
			if has := reader.DoHasAt(0, ord, key); has != wf {
				return ev.Failf("host.has_at", "ord=%d: host has_at(%q)=%v want %v", ord, key, has, wf)
			}
		}
	}

	// deltas: fold over the pre-block content
	cur := map[string][]byte{}
	for kk, v := range preKV {
		cur[kk] = v
	}
	for i, d := range full.GetDeltas() {
		old, present := cur[d.Key]
		switch d.Operation {
		case pbsubstreams.StoreDelta_CREATE:
			if present {
				return ev.Failf("delta/create-on-present", "delta %d CREATE of key %q which holds %q", i, d.Key, old)
			}
			cur[d.Key] = d.NewValue
		case pbsubstreams.StoreDelta_UPDATE:
			if !present {
				return ev.Failf("delta/update-on-absent", "delta %d UPDATE of absent key %q", i, d.Key)
			}
			if string(old) != string(d.OldValue) {
				return ev.Failf("delta/old-value", "delta %d UPDATE key %q old value %q, value just before is %q", i, d.Key, d.OldValue, old)
			}
			cur[d.Key] = d.NewValue
		case pbsubstreams.StoreDelta_DELETE:
			if !present {
				return ev.Failf("delta/delete-on-absent", "delta %d DELETE of absent key %q", i, d.Key)
			}
			if string(old) != string(d.OldValue) {
				return ev.Failf("delta/old-value", "delta %d DELETE key %q old value %q, value just before is %q", i, d.Key, d.OldValue, old)
			}
			delete(cur, d.Key)
		default:
			return ev.Failf("delta/unset-op", "delta %d has operation %v", i, d.Operation)
		}
	}
	if diff := sdsl.DiffStores(k, cur, postKV); diff != "" {
		return ev.Failf("delta/fold", "deltas folded over the pre-block content differ from the post-block content: %s", diff)
	}
	if diff := sdsl.DiffModel(k, postKV, post); diff != "" {
		return ev.Failf("post-content", "post-block content differs from the model: %s", diff)
	}
	return nil
}

func checkC08(c c08Case) *ev.Failure {
	e := newEnv(c.Kind, 0)
	defer e.close()
	full := e.cfg.NewFullKV(nop)
	model := sdsl.NewModel(c.Kind)
	num := uint64(0)
	for _, ops := range c.Pre {
		model.ApplyBlock(ops)
		if _, err := execBlock(full, c.Kind, num, ops); err != nil {
			return ev.Failf("exec-error", "pre block %d failed: %v", num, err)
		}
		num++
	}
	full.Reset()
	clock := &pbsubstreams.Clock{Number: num, Id: "x"}
	reader := wasm.NewCall(clock, "reader", "reader", stats, []wasm.Argument{wasm.NewStoreReaderInput("st", full, 0)})

	blocks := [][]sdsl.Op{c.Ops}
	if c.Next != nil {
		blocks = append(blocks, c.Next)
	}
	for _, ops := range blocks {
		preKV := sdsl.Snapshot(full)
		if _, err := execBlock(full, c.Kind, num, ops); err != nil {
			return ev.Failf("exec-error", "block %d failed: %v", num, err)
		}
		postKV := sdsl.Snapshot(full)
		if f := checkReadsOneBlock(c, e, full, reader, model, ops, c.Far, preKV, postKV); f != nil {
			return f
		}
		model.ApplyBlock(ops)
		num++
	}
	return nil
}

func classifyC08(c c08Case) (bool, []string) {
	// some key has >=2 operations at different ordinals issued in non-ascending order
	last := map[string]uint64{}
	seen := map[string]bool{}
	nt := false
	for _, o := range c.Ops {
		if o.Del {
			continue
		}
		key := string(o.Key)
		if seen[key] && o.Ord < last[key] {
			nt = true
		}
		if !seen[key] || o.Ord > last[key] {
			last[key] = o.Ord
		}
		seen[key] = true
	}
	cl := []string{"kind=" + c.Kind.String()}
	for _, o := range c.Ops {
		if o.Del {
			cl = append(cl, "has-delete-prefix")
			break
		}
	}
	if len(c.Pre) > 0 {
		cl = append(cl, "has-pre-state")
	}
	return nt, cl
}

func TestC08(t *testing.T) {
	ev.Get("C08", "Reads").Rule = "rapid: every kind in rotation; 0..2 pre-blocks, then a block of 0..8 ops with arbitrary repeated non-monotonic ordinals (15% delete_prefix) and optionally a following block; queries = every key of the alphabet plus absent keys x every ordinal around each op plus far ordinals, direct and through wasm.Call.DoGet*/DoHas*; oracle = independent model applied in stable ordinal order; non-trivial = some key has >=2 ops at different ordinals issued in non-ascending order"
	kinds := sdsl.AllKinds()
	shard, _ := ev.Shard()
	ev.Prop(t, "C08", "Reads", func(t *rapid.T) c08Case {
		return genC08(t, kinds[(shard+rapid.IntRange(0, len(kinds)-1).Draw(t, "kind"))%len(kinds)])
	}, checkC08, classifyC08)
}

func TestC08Replay(t *testing.T) { ev.Replay(t, "C08", "Reads", checkC08) }
