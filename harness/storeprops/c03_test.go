package storeprops

// C03 (store level) — undo restores every store to the content and size of the
// current canonical chain, including flip-flops over the same blocks.

import (
	"testing"

	"pgregory.net/rapid"

	"verif/ev"
	"verif/sdsl"
)

func TestC03Store(t *testing.T) {
	r := ev.Get("C03", "StoreUndo")
	r.Rule = "rapid history machine over one FullKV, every kind in rotation: block(ops) | undo (ApplyDeltasReverse of the top block's deltas) | redo (the undone block executed again, possibly several times) | final; after every step content and SizeBytes equal the model folded over the current chain; non-trivial = an undo of a block whose deltas include a delete or a value-changing update"
	kinds := sdsl.AllKinds()
	shard, _ := ev.Shard()
	rapid.Check(t, func(rt *rapid.T) {
		kind := kinds[(shard+rapid.IntRange(0, len(kinds)-1).Draw(rt, "kind"))%len(kinds)]
		c := genHist(rt, kind, false, false)
		f := checkHist(c)
		u, _, cl := classifyHist(c)
		r.Case(c, u, cl...)
		r.Report(rt, c, f)
	})
}

func TestC03StoreReplay(t *testing.T) { ev.Replay(t, "C03", "StoreUndo", checkHist) }
