package storeprops

// C18 — coverage-guided search over what the standard encoder writes: arbitrary bytes are decoded with the standard
// decoder, re-encoded with the standard encoder (so the input of the fast decoders is always a standard
// encoding of a message of the schema) and read by the hand-written decoders, which must see the same content.

import (
	"testing"

	pboutput "github.com/streamingfast/substreams/storage/execout/pb"
	"github.com/streamingfast/substreams/storage/store/marshaller"
	pbstore "github.com/streamingfast/substreams/storage/store/marshaller/pb"
	"google.golang.org/protobuf/encoding/protowire"
	"google.golang.org/protobuf/proto"
	"google.golang.org/protobuf/types/known/timestamppb"

	"verif/sdsl"
)

func FuzzC18Outputs(f *testing.F) {
	seedItems := []*pboutput.Item{
		{BlockNum: 1, BlockId: "a", Payload: []byte("p"), Cursor: "c", Timestamp: &timestamppb.Timestamp{Seconds: 5, Nanos: 7}},
		{BlockNum: 1 << 40, BlockId: "", Payload: nil},
		{BlockNum: 0, BlockId: "b", Payload: []byte{}},
	}
	b, _ := proto.Marshal(&pboutput.Array{Items: seedItems})
	f.Add(b)
	f.Add([]byte{})
	f.Add([]byte{0x0a, 0x00})
	f.Fuzz(func(t *testing.T, raw []byte) {
		std := &pboutput.Array{}
		if err := proto.Unmarshal(raw, std); err != nil {
			return
		}
		// keep to the schema: fields unknown at the top level or inside the timestamp are not part of a cached-output file
		std.ProtoReflect().SetUnknown(nil)
		want := map[string]*pboutput.Item{}
		for _, it := range std.Items {
			if it == nil {
				return
			}
			if it.Timestamp != nil {
				it.Timestamp.ProtoReflect().SetUnknown(nil)
			}
			// the standard decoder keeps a known field number that arrives with another wire type as an unknown
			// field; no encoder of this schema (or of a compatible later one) writes that: only fields with new numbers stay
			it.ProtoReflect().SetUnknown(newNumbersOnly(it.ProtoReflect().GetUnknown(), 5))
			want[it.BlockId] = it // a later item with the same id replaces the earlier one
		}
		canon, err := proto.Marshal(std)
		if err != nil {
			return
		}
		got := &pboutput.Map{}
		if err := got.UnmarshalFast(canon); err != nil {
			t.Fatalf("fast decoder rejects a standard encoding (%d items): %v", len(std.Items), err)
		}
		if len(got.Kv) != len(want) {
			t.Fatalf("fast decoder reads %d items, the standard decoder %d distinct ids", len(got.Kv), len(want))
		}
		for id, w := range want {
			g, ok := got.Kv[id]
			if !ok {
				t.Fatalf("item %q missing from the fast decoder's result", id)
			}
			if d := itemEq(w, g); d != "" {
				t.Fatalf("item %q: %s", id, d)
			}
		}
		// and back: what the fast encoder writes from it is read by the standard decoder
		fast, err := got.MarshalFast()
		if err != nil {
			t.Fatalf("MarshalFast: %v", err)
		}
		back := &pboutput.Array{}
		if err := proto.Unmarshal(fast, back); err != nil {
			t.Fatalf("standard decoder rejects the fast encoder's bytes: %v", err)
		}
		if len(back.Items) != len(want) {
			t.Fatalf("standard decoder reads %d items from the fast encoding, want %d", len(back.Items), len(want))
		}
		for _, it := range back.Items {
			if d := itemEq(want[it.BlockId], it); d != "" {
				t.Fatalf("fast encoding, item %q: %s", it.BlockId, d)
			}
		}
	})
}

// newNumbersOnly keeps the unknown fields whose number is above the schema's highest field number.
func newNumbersOnly(raw []byte, highest int) []byte {
	var out []byte
	for len(raw) > 0 {
		num, typ, n := protowire.ConsumeTag(raw)
		if n < 0 {
			return out
		}
		m := protowire.ConsumeFieldValue(num, typ, raw[n:])
		if m < 0 {
			return out
		}
		if int(num) > highest {
			out = append(out, raw[:n+m]...)
		}
		raw = raw[n+m:]
	}
	return out
}

func FuzzC18Stores(f *testing.F) {
	b, _ := proto.Marshal(&pbstore.StoreData{Kv: map[string][]byte{"a": []byte("1"), "": {}, "k": nil}, DeletePrefixes: []string{"p", ""}})
	f.Add(b)
	f.Add([]byte{})
	f.Fuzz(func(t *testing.T, raw []byte) {
		std := &pbstore.StoreData{}
		if err := proto.Unmarshal(raw, std); err != nil {
			return
		}
		std.ProtoReflect().SetUnknown(nil)
		canon, err := proto.Marshal(std)
		if err != nil {
			return
		}
		for name, dec := range map[string]marshaller.Marshaller{"vtproto": &marshaller.VTproto{}, "protoing_fast": &marshaller.ProtoingFast{}} {
			got, size, err := dec.Unmarshal(canon)
			if err != nil {
				t.Fatalf("%s rejects a standard encoding: %v", name, err)
			}
			if f := kvEq(name, std.Kv, got.Kv); f != nil {
				t.Fatalf("%s: %s", name, f.Msg)
			}
			if f := prefixesEq(name, std.DeletePrefixes, got.DeletePrefixes); f != nil {
				t.Fatalf("%s: %s", name, f.Msg)
			}
			if name == "vtproto" {
				if want := sdsl.ByteSize(std.Kv); size != want {
					t.Fatalf("vtproto reports size %d, keys+values total %d", size, want)
				}
			}
		}
	})
}
