package storeprops

// C10 — store snapshots round-trip through save/load and are found by block range.

import (
	"bytes"
	"fmt"
	"os"
	"path/filepath"
	"sort"
	"testing"

	"github.com/streamingfast/substreams/storage/store"
	"pgregory.net/rapid"

	"verif/ev"
	"verif/sdsl"
)

type c10Snap struct {
	Partial bool   `json:"partial"`
	Start   uint64 `json:"start"` // partial only; full snapshots start at the module's initial block
	End     uint64 `json:"end"`
}

type c10Case struct {
	Initial uint64       `json:"initial"` // module initial block
	Content c18StoreCase `json:"content"` // keys/values (valid UTF-8 keys: they go through the operation log) and delete prefixes
	Snaps   []c10Snap    `json:"snaps"`
	Below   []uint64     `json:"below"`
	// Legacy: number of files of the old naming scheme (<end>-<start>.<trace id>.partial) lying in the directory;
	// the listing skips them (and cleans up to 100 of them per call)
	Legacy int `json:"legacy,omitempty"`
	// Rolling: one partial store object saved at successive boundaries and rolled over after each save (what a segment
	// job does with its output store); Len = segment length, Write = whether the segment writes a key
	Rolling []c10Roll `json:"rolling,omitempty"`
}

type c10Roll struct {
	Len   uint64 `json:"len"`
	Write bool   `json:"write"`
}

func genKey(t *rapid.T) string {
	for {
		k := genUTF8(t, "key")
		if k != "" && len(k) < 200 && !(len(k) >= 5 && k[:5] == "__!__") {
			return k
		}
	}
}

func genC10(t *rapid.T) c10Case {
	c := c10Case{}
	c.Initial = rapid.SampledFrom([]uint64{0, 1, 7, 1000, 9_999_000_000}).Draw(t, "initial")
	n := rapid.IntRange(0, 12).Draw(t, "n")
	if rapid.IntRange(0, 30).Draw(t, "many") == 0 {
		n = rapid.IntRange(300, 3000).Draw(t, "nmany")
	}
	seen := map[string]bool{}
	for i := 0; i < n; i++ {
		k := genKey(t)
		if n > 100 {
			k = fmt.Sprintf("%s#%d", k, i)
		}
		if seen[k] {
			continue
		}
		seen[k] = true
		v, _ := genPayload(t, "val", n > 100)
		c.Content.KV = append(c.Content.KV, c18KV{K: sdsl.Bin(k), V: sdsl.Bin(v)})
	}
	np := rapid.IntRange(0, 3).Draw(t, "nprefixes")
	for i := 0; i < np; i++ {
		c.Content.Prefixes = append(c.Content.Prefixes, sdsl.Bin(genUTF8(t, "prefix")))
	}
	const max = 9_999_999_999
	ns := rapid.IntRange(0, 12).Draw(t, "nsnaps")
	used := map[string]bool{}
	for i := 0; i < ns; i++ {
		s := c10Snap{Partial: rapid.Bool().Draw(t, "partial")}
		span := rapid.SampledFrom([]uint64{1, 10, 10, 100, 1000, 123456}).Draw(t, "span")
		if s.Partial {
			s.Start = c.Initial + rapid.Uint64Range(0, 50).Draw(t, "startk")*span
		} else {
			s.Start = c.Initial
		}
		s.End = s.Start + rapid.Uint64Range(1, 20).Draw(t, "lenk")*span
		if s.End > max {
			s.End = max
		}
		if s.End <= s.Start {
			continue
		}
		key := fmt.Sprintf("%v-%d-%d", s.Partial, s.Start, s.End)
		if used[key] {
			continue
		}
		used[key] = true
		c.Snaps = append(c.Snaps, s)
	}
	switch rapid.IntRange(0, 9).Draw(t, "legacyk") {
	case 0, 1:
		c.Legacy = rapid.IntRange(1, 5).Draw(t, "legacyfew")
	case 2:
		c.Legacy = rapid.IntRange(95, 140).Draw(t, "legacymany")
	}
	if c.Initial < 1_000_000 {
		nr := rapid.IntRange(0, 4).Draw(t, "nrolling")
		for i := 0; i < nr; i++ {
			c.Rolling = append(c.Rolling, c10Roll{Len: rapid.SampledFrom([]uint64{1, 10, 10, 1000}).Draw(t, "rolllen"), Write: rapid.IntRange(0, 2).Draw(t, "rollwrite") > 0})
		}
	}
	c.Below = []uint64{0, c.Initial, c.Initial + 1, max, max + 1}
	for _, s := range c.Snaps {
		c.Below = append(c.Below, s.End-1, s.End, s.End+1, s.Start, s.Start+1)
	}
	return c
}

func eqNilEmpty(a, b []byte) bool { return bytes.Equal(a, b) }

func checkC10(c c10Case) *ev.Failure {
	kind := sdsl.Kind{Policy: "set", VType: "bytes"}
	e := newEnv(kind, c.Initial)
	defer e.close()

	// content through real operations
	var ops []sdsl.Op
	for i, kv := range c.Content.KV {
		ops = append(ops, sdsl.Op{Ord: uint64(i % 7), Key: kv.K, Val: kv.V})
	}
	want := map[string][]byte{}
	for _, kv := range c.Content.KV {
		want[string(kv.K)] = []byte(kv.V)
	}
	wantSize := sdsl.ByteSize(want)

	full := e.cfg.NewFullKV(nop)
	if _, err := execBlock(full, kind, c.Initial, ops); err != nil {
		return ev.Failf("exec-error", "building the content failed: %v", err)
	}
	full.Reset()
	part := e.cfg.NewPartialKV(c.Initial+5, nop)
	var pops []sdsl.Op
	for _, p := range c.Content.Prefixes {
		pops = append(pops, sdsl.Op{Ord: 0, Key: p, Del: true})
	}
	for i, kv := range c.Content.KV { // keys written after the deletions survive in the partial
		pops = append(pops, sdsl.Op{Ord: 1 + uint64(i%7), Key: kv.K, Val: kv.V})
	}
	if _, err := execBlock(part, kind, c.Initial+5, pops); err != nil {
		return ev.Failf("exec-error", "building the partial content failed: %v", err)
	}
	part.Reset()

	// A. save / load round trip
	{
		file, w, err := full.Save(c.Initial + 10)
		if err != nil {
			return ev.Failf("full/save-error", "%v", err)
		}
		if err := w.Write(ctx); err != nil {
			return ev.Failf("full/save-error", "%v", err)
		}
		back := e.cfg.NewFullKV(nop)
		if err := back.Load(ctx, file); err != nil {
			return ev.Failf("full/load-error", "%v", err)
		}
		if f := kvEq("full-save-load", want, sdsl.Snapshot(back)); f != nil {
			return f
		}
		if back.SizeBytes() != wantSize {
			return ev.Failf("full/size", "loaded full store reports %d bytes, keys+values total %d", back.SizeBytes(), wantSize)
		}
		if back.Length() != uint64(len(want)) {
			return ev.Failf("full/length", "loaded full store reports %d keys, want %d", back.Length(), len(want))
		}
		for name, again := range map[string]*store.FullKV{"into-the-store-that-saved-it": full, "a-second-time": back} {
			if err := again.Load(ctx, file); err != nil {
				return ev.Failf("full/load-error", "%s: %v", name, err)
			}
			if f := kvEq("full-save-load-"+name, want, sdsl.Snapshot(again)); f != nil {
				return f
			}
			if again.SizeBytes() != wantSize || again.Length() != uint64(len(want)) {
				return ev.Failf("full/size", "full store loaded %s reports %d bytes and %d keys, want %d and %d", name, again.SizeBytes(), again.Length(), wantSize, len(want))
			}
		}
		if file.Partial || file.Range.StartBlock != c.Initial || file.Range.ExclusiveEndBlock != c.Initial+10 {
			return ev.Failf("full/fileinfo", "Save returned %+v %s", file, file.Range)
		}
	}
	{
		file, w, err := part.Save(c.Initial + 10)
		if err != nil {
			return ev.Failf("partial/save-error", "%v", err)
		}
		if err := w.Write(ctx); err != nil {
			return ev.Failf("partial/save-error", "%v", err)
		}
		back := e.cfg.NewPartialKV(c.Initial+5, nop)
		if err := back.Load(ctx, file); err != nil {
			return ev.Failf("partial/load-error", "%v", err)
		}
		if f := kvEq("partial-save-load", want, sdsl.Snapshot(back)); f != nil {
			return f
		}
		if back.SizeBytes() != wantSize {
			return ev.Failf("partial/size", "loaded partial store reports %d bytes, keys+values total %d", back.SizeBytes(), wantSize)
		}
		var wantPrefixes []string
		seen := map[string]bool{}
		for _, p := range c.Content.Prefixes {
			if !seen[string(p)] {
				wantPrefixes = append(wantPrefixes, string(p))
				seen[string(p)] = true
			}
		}
		if f := prefixesEq("partial-save-load", wantPrefixes, back.DeletedPrefixes); f != nil {
			return f
		}
		// loading it back into a store object that has a history: the one that saved it, and one that loaded it already
		for name, again := range map[string]*store.PartialKV{"into-the-store-that-saved-it": part, "a-second-time": back} {
			if err := again.Load(ctx, file); err != nil {
				return ev.Failf("partial/load-error", "%s: %v", name, err)
			}
			if f := kvEq("partial-save-load-"+name, want, sdsl.Snapshot(again)); f != nil {
				return f
			}
			if again.SizeBytes() != wantSize {
				return ev.Failf("partial/size", "partial store loaded %s reports %d bytes, keys+values total %d", name, again.SizeBytes(), wantSize)
			}
			if f := prefixesEq("partial-save-load-"+name, wantPrefixes, again.DeletedPrefixes); f != nil {
				return f
			}
		}
		if !file.Partial || file.Range.StartBlock != c.Initial+5 || file.Range.ExclusiveEndBlock != c.Initial+10 {
			return ev.Failf("partial/fileinfo", "Save returned %+v %s", file, file.Range)
		}
	}

	// A2. a snapshot holds what the store held when Save was called: the squasher saves a full store, hands the writer
	// to background work and goes on merging the next segment into the same object before the file is written
	{
		after := []sdsl.Op{{Ord: 0, Key: sdsl.Bin("zz-after-the-boundary"), Val: sdsl.Bin("late")}}
		if len(c.Content.KV) > 0 {
			k := c.Content.KV[0].K
			after = append(after, sdsl.Op{Ord: 1, Key: k, Val: sdsl.Bin("changed after the boundary")})
			if len(c.Content.KV) > 1 {
				after = append(after, sdsl.Op{Ord: 2, Key: c.Content.KV[1].K, Del: true})
			}
		}
		var wantPrefixes []string
		seenP := map[string]bool{}
		for _, p := range c.Content.Prefixes {
			if !seenP[string(p)] {
				wantPrefixes = append(wantPrefixes, string(p))
				seenP[string(p)] = true
			}
		}
		file, w, err := full.Save(c.Initial + 11)
		if err != nil {
			return ev.Failf("full/save-error", "%v", err)
		}
		if _, err := execBlock(full, kind, c.Initial+11, after); err != nil {
			return ev.Failf("exec-error", "writing after Save failed: %v", err)
		}
		if err := w.Write(ctx); err != nil {
			return ev.Failf("full/save-error", "%v", err)
		}
		back := e.cfg.NewFullKV(nop)
		if err := back.Load(ctx, file); err != nil {
			return ev.Failf("full/load-error", "%v", err)
		}
		if f := kvEq("full-save-then-write-later", want, sdsl.Snapshot(back)); f != nil {
			return f
		}
		pfile, pw, err := part.Save(c.Initial + 11)
		if err != nil {
			return ev.Failf("partial/save-error", "%v", err)
		}
		if _, err := execBlock(part, kind, c.Initial+11, after); err != nil {
			return ev.Failf("exec-error", "writing after Save failed: %v", err)
		}
		if err := pw.Write(ctx); err != nil {
			return ev.Failf("partial/save-error", "%v", err)
		}
		pback := e.cfg.NewPartialKV(c.Initial+5, nop)
		if err := pback.Load(ctx, pfile); err != nil {
			return ev.Failf("partial/load-error", "%v", err)
		}
		if f := kvEq("partial-save-then-write-later", want, sdsl.Snapshot(pback)); f != nil {
			return f
		}
		if f := prefixesEq("partial-save-then-write-later", wantPrefixes, pback.DeletedPrefixes); f != nil {
			return f
		}
	}

	// B. names: a fresh module directory with the generated snapshot set
	e2 := newEnv(kind, c.Initial)
	defer e2.close()
	type key struct {
		partial    bool
		start, end uint64
	}
	saved := map[key]bool{}
	for _, s := range c.Snaps {
		var w interface {
			Write(ctxT) error
		}
		var file *store.FileInfo
		var err error
		if s.Partial {
			p := e2.cfg.NewPartialKV(s.Start, nop)
			file, w, err = saveOf(p.Save(s.End))
		} else {
			f := e2.cfg.NewFullKV(nop)
			file, w, err = saveOf(f.Save(s.End))
		}
		if err != nil {
			return ev.Failf("names/save-error", "%v", err)
		}
		if err := w.Write(ctx); err != nil {
			return ev.Failf("names/save-error", "%v", err)
		}
		if file.Partial != s.Partial || file.Range.StartBlock != s.Start || file.Range.ExclusiveEndBlock != s.End {
			return ev.Failf("names/fileinfo", "Save(%+v) returned %s partial=%v", s, file.Range, file.Partial)
		}
		saved[key{s.Partial, s.Start, s.End}] = true
	}
	for i := 0; i < c.Legacy; i++ {
		start := c.Initial + 7_000_000 + uint64(i)
		if start+1 > 9_999_999_999 {
			start = 9_000_000_000 + uint64(i)
		}
		name := fmt.Sprintf("%010d-%010d.%016x.partial", start+1, start, 0xabc000+i)
		if err := os.WriteFile(filepath.Join(e2.dir, "hash", "states", name), []byte("legacy"), 0o644); err != nil {
			os.MkdirAll(filepath.Join(e2.dir, "hash", "states"), 0o755)
			if err := os.WriteFile(filepath.Join(e2.dir, "hash", "states", name), []byte("legacy"), 0o644); err != nil {
				return ev.Failf("harness", "%v", err)
			}
		}
	}
	for _, below := range c.Below {
		files, err := e2.cfg.ListSnapshotFiles(ctx, below)
		if err != nil {
			return ev.Failf("names/list-error", "ListSnapshotFiles(%d): %v", below, err)
		}
		got := map[key]bool{}
		for _, f := range files {
			k := key{f.Partial, f.Range.StartBlock, f.Range.ExclusiveEndBlock}
			if !saved[k] {
				return ev.Failf("names/invented", "ListSnapshotFiles(%d) returned %s partial=%v (%s) which was never saved", below, f.Range, f.Partial, f.Filename)
			}
			got[k] = true
		}
		var missing []string
		for k := range saved {
			if k.end <= below && !got[k] {
				missing = append(missing, fmt.Sprintf("[%d,%d) partial=%v", k.start, k.end, k.partial))
			}
		}
		if len(missing) > 0 {
			sort.Strings(missing)
			return ev.Failf("names/missing", "ListSnapshotFiles(%d) misses saved snapshots ending at or below it: %v", below, missing)
		}
	}

	// C. one partial store saved at successive boundaries and rolled over in between: every snapshot is named after
	// its own segment and holds that segment's writes
	if len(c.Rolling) > 0 {
		e3 := newEnv(kind, c.Initial)
		defer e3.close()
		at := c.Initial + 3
		p := e3.cfg.NewPartialKV(at, nop)
		type seg struct {
			start, end uint64
			want       map[string][]byte
		}
		var segs []seg
		for i, r := range c.Rolling {
			want := map[string][]byte{}
			if r.Write {
				k := fmt.Sprintf("roll%d", i)
				if _, err := execBlock(p, kind, at, []sdsl.Op{{Ord: 1, Key: sdsl.Bin(k), Val: sdsl.Bin(k + "v")}}); err != nil {
					return ev.Failf("exec-error", "rolling partial: %v", err)
				}
				p.Reset()
				want[k] = []byte(k + "v")
			}
			end := at + r.Len
			file, w, err := p.Save(end)
			if err != nil {
				return ev.Failf("rolling/save-error", "%v", err)
			}
			if err := w.Write(ctx); err != nil {
				return ev.Failf("rolling/save-error", "%v", err)
			}
			if !file.Partial || file.Range.StartBlock != at || file.Range.ExclusiveEndBlock != end {
				return ev.Failf("rolling/fileinfo", "segment %d of a rolled partial store: Save(%d) returned %s partial=%v (%s), want [%d,%d)", i, end, file.Range, file.Partial, file.Filename, at, end)
			}
			segs = append(segs, seg{at, end, want})
			p.Roll(end)
			if p.InitialBlock() != end {
				return ev.Failf("rolling/initial-block", "after Roll(%d) the partial store starts at %d", end, p.InitialBlock())
			}
			at = end
		}
		files, err := e3.cfg.ListSnapshotFiles(ctx, at)
		if err != nil {
			return ev.Failf("rolling/list-error", "%v", err)
		}
		for _, sg := range segs {
			var found *store.FileInfo
			for _, f := range files {
				if f.Partial && f.Range.StartBlock == sg.start && f.Range.ExclusiveEndBlock == sg.end {
					found = f
				}
			}
			if found == nil {
				return ev.Failf("rolling/missing", "the snapshot [%d,%d) of a rolled partial store is not listed", sg.start, sg.end)
			}
			back := e3.cfg.NewPartialKV(sg.start, nop)
			if err := back.Load(ctx, found); err != nil {
				return ev.Failf("rolling/load-error", "%v", err)
			}
			if f := kvEq("rolling-save-load", sg.want, sdsl.Snapshot(back)); f != nil {
				return f
			}
		}
	}
	return nil
}

func classifyC10(c c10Case) (bool, []string) {
	empty, multibyte := false, false
	for _, kv := range c.Content.KV {
		if kv.V == "" {
			empty = true
		}
		for i := 0; i < len(kv.K); i++ {
			if kv.K[i] >= 0x80 || kv.K[i] < 0x20 {
				multibyte = true
			}
		}
	}
	np, nf := 0, 0
	for _, s := range c.Snaps {
		if s.Partial {
			np++
		} else {
			nf++
		}
	}
	cl := []string{fmt.Sprintf("entries<=%d", bucketInt(len(c.Content.KV))), fmt.Sprintf("snapshots<=%d", bucketInt(len(c.Snaps))), fmt.Sprintf("legacy-files<=%d", bucketInt(c.Legacy))}
	return (empty && multibyte) || (np >= 1 && nf >= 1 && np+nf >= 3), cl
}

func TestC10(t *testing.T) {
	ev.Get("C10", "Snapshots").Rule = "rapid: content of 0..12 (1 in 30: hundreds to thousands) entries built through real set operations (keys arbitrary valid UTF-8 incl. control/multi-byte characters, values binary incl. empty and large), delete prefixes for partials; Save->write->Load into a fresh store, into the store object that saved it and a second time into the same object, each compared bytewise with size and prefix list; sets of 0..12 full/partial snapshots with ranges up to 10 digits saved through Save and listed with ListSnapshotFiles(below) for below around every boundary: every saved snapshot ending <= below is returned with its range and kind and nothing unsaved is returned; one partial store object saved at 0..4 successive boundaries and rolled over after each (segments with and without writes): every snapshot named after its own segment, listed, and holding that segment's writes only; non-trivial = an empty value and a non-ASCII/control key, or >=3 snapshots of both kinds"
	ev.Prop(t, "C10", "Snapshots", genC10, checkC10, classifyC10)
}

func TestC10Replay(t *testing.T) { ev.Replay(t, "C10", "Snapshots", checkC10) }
