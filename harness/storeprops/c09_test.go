package storeprops

// C09 — replaying a store's cached operation log reproduces its deltas and state.

import (
	"fmt"
	"github.com/streamingfast/substreams/pipeline/exec"
	"github.com/streamingfast/substreams/storage/execout"
	"sort"
	"strings"
	"testing"

	pbsubstreams "github.com/streamingfast/substreams/pb/sf/substreams/v1"
	"github.com/streamingfast/substreams/storage/store"
	"google.golang.org/protobuf/proto"
	"pgregory.net/rapid"

	"verif/ev"
	"verif/sdsl"
)

type c09Case struct {
	Kind     sdsl.Kind   `json:"kind"`
	Partial  bool        `json:"partial"`   // replay on a partial store (tier2 job) instead of a full store
	Pre      [][]sdsl.Op `json:"pre"`       // history that builds the pre-state (full stores) or the base of the merge target (partial)
	Blocks   [][]sdsl.Op `json:"blocks"`    // blocks whose operation log is recorded and replayed
	FromSnap bool        `json:"from_snap"` // full: the twin is loaded from the snapshot saved by the original instead of re-running the history
	// Deferred: the logs are kept as ReadOps handed them out (no copy, as the per-block output buffers of the
	// pipeline keep them) and replayed only after the original executed every block
	Deferred bool `json:"deferred"`
}

func genC09(t *rapid.T, kind sdsl.Kind) c09Case {
	c := c09Case{Kind: kind, Partial: rapid.Bool().Draw(t, "partial")}
	c.Pre = sdsl.GenBlocks(t, kind, 0, 3, 5, 12)
	c.Blocks = sdsl.GenBlocks(t, kind, 1, 4, 5, 20)
	c.FromSnap = rapid.Bool().Draw(t, "from_snap")
	c.Deferred = rapid.IntRange(0, 2).Draw(t, "deferred") == 0
	return c
}

func cloneDeltas(in []*pbsubstreams.StoreDelta) []*pbsubstreams.StoreDelta {
	out := make([]*pbsubstreams.StoreDelta, len(in))
	for i, d := range in {
		out[i] = proto.Clone(d).(*pbsubstreams.StoreDelta)
	}
	return out
}

func deltasString(ds []*pbsubstreams.StoreDelta) string {
	var sb strings.Builder
	for _, d := range ds {
		fmt.Fprintf(&sb, "[%s @%d %q %q->%q]", d.Operation, d.Ordinal, d.Key, d.OldValue, d.NewValue)
	}
	return sb.String()
}

func bytewiseDiff(a, b map[string][]byte) string {
	var diffs []string
	for k, va := range a {
		vb, ok := b[k]
		if !ok {
			diffs = append(diffs, fmt.Sprintf("key %q only in original (=%q)", k, va))
		} else if string(va) != string(vb) {
			diffs = append(diffs, fmt.Sprintf("key %q: original %q replay %q", k, va, vb))
		}
	}
	for k, vb := range b {
		if _, ok := a[k]; !ok {
			diffs = append(diffs, fmt.Sprintf("key %q only in replay (=%q)", k, vb))
		}
	}
	sort.Strings(diffs)
	return strings.Join(diffs, "; ")
}

func checkC09(c c09Case) *ev.Failure {
	e := newEnv(c.Kind, 0)
	defer e.close()
	num := uint64(0)

	if !c.Partial {
		orig := e.cfg.NewFullKV(nop)
		for _, ops := range c.Pre {
			if _, err := execBlock(orig, c.Kind, num, ops); err != nil {
				return ev.Failf("exec-error", "pre block failed: %v", err)
			}
			num++
		}
		orig.Reset()
		twin := e.cfg.NewFullKV(nop)
		if c.FromSnap {
			file, w, err := orig.Save(num + 100)
			if err != nil {
				return ev.Failf("save-error", "%v", err)
			}
			if err := w.Write(ctx); err != nil {
				return ev.Failf("save-error", "%v", err)
			}
			if err := twin.Load(ctx, file); err != nil {
				return ev.Failf("load-error", "%v", err)
			}
		} else {
			n2 := uint64(0)
			for _, ops := range c.Pre {
				if _, err := execBlock(twin, c.Kind, n2, ops); err != nil {
					return ev.Failf("exec-error", "pre block failed: %v", err)
				}
				n2++
			}
			twin.Reset()
		}
		// a third store replays the logs through the cache-hit path of exec.RunModule (a store executor whose log
		// sits in the block's output buffer): the deltas it hands to its consumers are the original ones
		viaRun := e.cfg.NewFullKV(nop)
		{
			n2 := uint64(0)
			for _, ops := range c.Pre {
				if _, err := execBlock(viaRun, c.Kind, n2, ops); err != nil {
					return ev.Failf("exec-error", "pre block failed: %v", err)
				}
				n2++
			}
			viaRun.Reset()
		}
		runExec := exec.NewStoreModuleExecutor(exec.NewBaseExecutor(ctx, "st", 0, nil, false, nil, nil, "st", nil), viaRun)
		var logs [][]byte
		var wants [][]*pbsubstreams.StoreDelta
		var contents []map[string][]byte
		var sizes []uint64
		replay := func(i int, log []byte, wantDeltas []*pbsubstreams.StoreDelta, wantContent map[string][]byte, wantSize uint64) *ev.Failure {
			twin.Reset() // what Stores.resetStores does after each block
			if err := twin.ApplyOps(log); err != nil {
				return ev.Failf("apply-ops-error", "block %d: ApplyOps: %v", i, err)
			}
			got := twin.GetDeltas()
			if len(got) != len(wantDeltas) {
				return ev.Failf("full/deltas", "block %d: replay produced %d deltas, original %d\noriginal: %s\nreplay:   %s", i, len(got), len(wantDeltas), deltasString(wantDeltas), deltasString(got))
			}
			for j := range got {
				if !proto.Equal(got[j], wantDeltas[j]) {
					return ev.Failf("full/deltas", "block %d: delta %d differs\noriginal: %s\nreplay:   %s", i, j, deltasString(wantDeltas), deltasString(got))
				}
			}
			if d := bytewiseDiff(wantContent, sdsl.Snapshot(twin)); d != "" {
				return ev.Failf("full/content", "block %d: content differs after replay: %s", i, d)
			}
			if wantSize != twin.SizeBytes() {
				return ev.Failf("full/size", "block %d: SizeBytes original %d replay %d", i, wantSize, twin.SizeBytes())
			}
			// the same log on the cache-hit path of RunModule
			viaRun.Reset()
			buf, err := execout.NewBuffer("", nil, &pbsubstreams.Clock{Number: uint64(i) + 1, Id: fmt.Sprintf("b%d", i)})
			if err != nil {
				return ev.Failf("harness", "%v", err)
			}
			if err := buf.Set("st", log); err != nil {
				return ev.Failf("harness", "%v", err)
			}
			out, gotBytes, _, skipped, err := exec.RunModule(ctx, runExec, buf)
			if err != nil || skipped || out == nil || !out.GetCached() {
				return ev.Failf("run-module/not-a-cache-hit", "block %d: RunModule with the log in the buffer: err=%v skipped=%v cached=%v", i, err, skipped, out.GetCached())
			}
			handed := &pbsubstreams.StoreDeltas{}
			if err := proto.Unmarshal(gotBytes, handed); err != nil {
				return ev.Failf("run-module/deltas-undecodable", "block %d: the bytes RunModule hands to the consumers of the store do not decode as deltas: %v", i, err)
			}
			for name, got := range map[string][]*pbsubstreams.StoreDelta{"module output": out.GetStoreDeltas().GetStoreDeltas(), "bytes for the consumers": handed.StoreDeltas} {
				if len(got) != len(wantDeltas) {
					return ev.Failf("run-module/deltas", "block %d: RunModule on a cache hit gives %d deltas (%s), the original execution %d\noriginal: %s\nreplay:   %s", i, len(got), name, len(wantDeltas), deltasString(wantDeltas), deltasString(got))
				}
				for j := range got {
					if !proto.Equal(got[j], wantDeltas[j]) {
						return ev.Failf("run-module/deltas", "block %d: delta %d differs (%s)\noriginal: %s\nreplay:   %s", i, j, name, deltasString(wantDeltas), deltasString(got))
					}
				}
			}
			if d := bytewiseDiff(wantContent, sdsl.Snapshot(viaRun)); d != "" {
				return ev.Failf("run-module/content", "block %d: content differs after RunModule replayed the log: %s", i, d)
			}
			return nil
		}
		for i, ops := range c.Blocks {
			if _, err := execBlock(orig, c.Kind, num, ops); err != nil {
				return ev.Failf("exec-error", "block %d failed: %v", i, err)
			}
			// order used by StoreModuleExecutor.wrapDeltasAndOps: Flush, GetDeltas, ReadOps
			wantDeltas := cloneDeltas(orig.GetDeltas())
			log := orig.ReadOps()
			if c.Deferred {
				logs, wants, contents, sizes = append(logs, log), append(wants, wantDeltas), append(contents, sdsl.Snapshot(orig)), append(sizes, orig.SizeBytes())
			} else if f := replay(i, log, wantDeltas, sdsl.Snapshot(orig), orig.SizeBytes()); f != nil {
				return f
			}
			num++
		}
		for i := range logs {
			if f := replay(i, logs[i], wants[i], contents[i], sizes[i]); f != nil {
				f.Sig += "/deferred"
				return f
			}
		}
		return nil
	}

	// partial: original job vs a job that replays the cached operation log
	start := uint64(10)
	num = start
	orig := e.cfg.NewPartialKV(start, nop)
	twin := e.cfg.NewPartialKV(start, nop)
	var plogs [][]byte
	for i, ops := range c.Blocks {
		if _, err := execBlock(orig, c.Kind, num, ops); err != nil {
			return ev.Failf("exec-error", "block %d failed: %v", i, err)
		}
		log := orig.ReadOps()
		if c.Deferred {
			plogs = append(plogs, log)
		} else {
			twin.Reset()
			if err := twin.ApplyOps(log); err != nil {
				return ev.Failf("apply-ops-error", "block %d: ApplyOps on partial: %v", i, err)
			}
		}
		num++
	}
	for i, log := range plogs {
		twin.Reset()
		if err := twin.ApplyOps(log); err != nil {
			return ev.Failf("apply-ops-error/deferred", "block %d: ApplyOps on partial of a log kept since its block: %v", i, err)
		}
	}
	orig.Reset()
	twin.Reset()
	if d := bytewiseDiff(sdsl.Snapshot(orig), sdsl.Snapshot(twin)); d != "" {
		return ev.Failf("partial/content", "partial content differs after replay: %s", d)
	}
	if orig.SizeBytes() != twin.SizeBytes() {
		return ev.Failf("partial/size", "partial SizeBytes original %d replay %d", orig.SizeBytes(), twin.SizeBytes())
	}
	// the order of the list is irrelevant (all prefixes are applied before the keys when squashing,
	// and the replayed log is in ordinal order while the original list is in call order): compare as sets
	sortedSet := func(in []string) string {
		cp := append([]string{}, in...)
		sort.Strings(cp)
		return fmt.Sprintf("%q", cp)
	}
	if sortedSet(orig.DeletedPrefixes) != sortedSet(twin.DeletedPrefixes) {
		return ev.Failf("partial/deleted-prefixes", "DeletedPrefixes original %q replay %q", orig.DeletedPrefixes, twin.DeletedPrefixes)
	}
	// the replayed partial must squash to the same store as the original one
	build := func(p *store.PartialKV) (map[string][]byte, *ev.Failure) {
		full := e.cfg.NewFullKV(nop)
		n := uint64(0)
		for _, ops := range c.Pre {
			if _, err := execBlock(full, c.Kind, n, ops); err != nil {
				return nil, ev.Failf("exec-error", "pre block failed: %v", err)
			}
			n++
		}
		full.Reset()
		file, w, err := p.Save(num)
		if err != nil {
			return nil, ev.Failf("save-error", "%v", err)
		}
		if err := w.Write(ctx); err != nil { // the local store overwrites: both partials use the same name, one after the other
			return nil, ev.Failf("save-error", "%v", err)
		}
		loaded := e.cfg.NewPartialKV(start, nop)
		if err := loaded.Load(ctx, file); err != nil {
			return nil, ev.Failf("load-error", "%v", err)
		}
		if err := full.Merge(loaded); err != nil {
			return nil, ev.Failf("merge-error", "%v", err)
		}
		return sdsl.Snapshot(full), nil
	}
	a, f := build(orig)
	if f != nil {
		return f
	}
	b, f := build(twin)
	if f != nil {
		return f
	}
	if d := sdsl.DiffStores(c.Kind, a, b); d != "" {
		return ev.Failf("partial/squash", "store squashed from the replayed partial differs from the one squashed from the original partial: %s", d)
	}
	return nil
}

func classifyC09(c c09Case) (bool, []string) {
	nt := false
	for _, b := range c.Blocks {
		seen := map[string]bool{}
		for _, o := range b {
			if o.Del {
				nt = true
			} else if seen[string(o.Key)] {
				nt = true
			}
			seen[string(o.Key)] = true
		}
	}
	cl := []string{"kind=" + c.Kind.String()}
	if c.Partial {
		cl = append(cl, "partial")
	} else {
		cl = append(cl, "full")
		if c.FromSnap {
			cl = append(cl, "twin-from-snapshot")
		}
	}
	if c.Deferred {
		cl = append(cl, "logs-replayed-after-all-blocks")
	}
	return nt, cl
}

func TestC09(t *testing.T) {
	ev.Get("C09", "ReplayOps").Rule = "rapid: every kind in rotation; pre-state from 0..3 blocks, then 1..4 blocks (20% delete_prefix, arbitrary ordinals) executed through the host interface, log read with ReadOps after Flush, replayed with Reset+ApplyOps (block by block, or, 1 case in 3, all logs kept as handed out and replayed after the last block) on a twin (same history or loaded from the saved snapshot) full store (deltas proto-equal, content bytewise, size; and through the cache-hit path of exec.RunModule with the log in the block buffer: the module output and the bytes handed to the consumers decode to the original deltas) or partial store (content, size, DeletedPrefixes, and the squash of the replayed partial vs the original one); non-trivial = a block with a delete_prefix or two ops on one key"
	kinds := sdsl.AllKinds()
	shard, _ := ev.Shard()
	ev.Prop(t, "C09", "ReplayOps", func(t *rapid.T) c09Case {
		return genC09(t, kinds[(shard+rapid.IntRange(0, len(kinds)-1).Draw(t, "kind"))%len(kinds)])
	}, checkC09, classifyC09)
}

func TestC09Replay(t *testing.T) { ev.Replay(t, "C09", "ReplayOps", checkC09) }
