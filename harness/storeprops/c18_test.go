package storeprops

// C18 — hand-written cache file codecs are wire-compatible with their protobuf schemas.

import (
	"bytes"
	"fmt"
	"sort"
	"testing"
	"unicode/utf8"

	pboutput "github.com/streamingfast/substreams/storage/execout/pb"
	"github.com/streamingfast/substreams/storage/store/marshaller"
	pbstore "github.com/streamingfast/substreams/storage/store/marshaller/pb"
	"google.golang.org/protobuf/encoding/protowire"
	"google.golang.org/protobuf/proto"
	"google.golang.org/protobuf/types/known/timestamppb"
	"pgregory.net/rapid"

	"verif/ev"
	"verif/sdsl"
)

// ---------------------------------------------------------------- cached outputs

type c18Item struct {
	Num     uint64   `json:"num"`
	ID      sdsl.Bin `json:"id"`
	Payload sdsl.Bin `json:"payload"`
	NilPay  bool     `json:"nil_payload,omitempty"`
	HasTS   bool     `json:"has_ts,omitempty"`
	Sec     int64    `json:"sec,omitempty"`
	Nanos   int32    `json:"nanos,omitempty"`
	Cursor  sdsl.Bin `json:"cursor,omitempty"`
	// Unknown: fields of a newer schema (numbers 6..40), as the standard encoder writes them back
	Unknown []c18Unknown `json:"unknown,omitempty"`
}

type c18Unknown struct {
	Num    int      `json:"num"`
	Varint bool     `json:"varint"`
	V      uint64   `json:"v,omitempty"`
	B      sdsl.Bin `json:"b,omitempty"`
}

type c18OutCase struct {
	Items []c18Item `json:"items"`
}

func genUTF8(t *rapid.T, label string) string {
	switch rapid.IntRange(0, 4).Draw(t, label+"k") {
	case 0:
		return ""
	case 1:
		return rapid.StringMatching("[0-9a-f]{1,64}").Draw(t, label)
	default:
		return rapid.String().Draw(t, label) // arbitrary valid UTF-8
	}
}

func genUint64(t *rapid.T, label string) uint64 {
	switch rapid.IntRange(0, 4).Draw(t, label+"k") {
	case 0:
		return rapid.Uint64Range(0, 300).Draw(t, label)
	case 1:
		return rapid.SampledFrom([]uint64{0, 1, 127, 128, 16383, 16384, 1<<32 - 1, 1 << 32, 1<<63 - 1, 1 << 63, 1<<64 - 1}).Draw(t, label)
	default:
		return rapid.Uint64().Draw(t, label)
	}
}

func genPayload(t *rapid.T, label string, small bool) (string, bool) {
	k := rapid.IntRange(0, 6).Draw(t, label+"k")
	if small && k == 2 { // thousands of entries: keep the big payloads out
		k = 3
	}
	switch k {
	case 0:
		return "", true
	case 1:
		return "", false
	case 2:
		n := rapid.SampledFrom([]int{127, 128, 129, 16383, 16384, 70000}).Draw(t, label+"n")
		return string(bytes.Repeat([]byte{byte(rapid.IntRange(0, 255).Draw(t, label+"b"))}, n)), false
	default:
		return string(rapid.SliceOfN(rapid.Byte(), 0, 40).Draw(t, label)), false
	}
}

func genC18Out(t *rapid.T) c18OutCase {
	n := rapid.IntRange(0, 12).Draw(t, "n")
	if rapid.IntRange(0, 40).Draw(t, "many") == 0 {
		n = rapid.IntRange(500, 2000).Draw(t, "nmany")
	}
	var c c18OutCase
	seen := map[string]bool{}
	for i := 0; i < n; i++ {
		it := c18Item{Num: genUint64(t, "num")}
		id := genUTF8(t, "id")
		if n > 100 {
			id = fmt.Sprintf("%s#%d", id, i)
		}
		if seen[id] {
			continue
		}
		seen[id] = true
		it.ID = sdsl.Bin(id)
		p, isNil := genPayload(t, "payload", n > 100)
		it.Payload, it.NilPay = sdsl.Bin(p), isNil
		if rapid.IntRange(0, 3).Draw(t, "ts") > 0 {
			it.HasTS = true
			it.Sec = rapid.OneOf(rapid.Int64Range(-5, 5), rapid.Int64(), rapid.Just(int64(1700000000))).Draw(t, "sec")
			it.Nanos = rapid.OneOf(rapid.Just(int32(0)), rapid.Int32Range(0, 999999999), rapid.Int32()).Draw(t, "nanos")
		}
		if rapid.IntRange(0, 2).Draw(t, "hascursor") == 0 {
			it.Cursor = sdsl.Bin(genUTF8(t, "cursor"))
		}
		if rapid.IntRange(0, 3).Draw(t, "hasunknown") == 0 {
			nu := rapid.IntRange(1, 3).Draw(t, "nunknown")
			for j := 0; j < nu; j++ {
				u := c18Unknown{Num: rapid.IntRange(6, 40).Draw(t, "unum"), Varint: rapid.Bool().Draw(t, "uvarint")}
				if u.Varint {
					u.V = genUint64(t, "uv")
				} else {
					u.B = sdsl.Bin(rapid.SliceOfN(rapid.Byte(), 0, 12).Draw(t, "ub"))
				}
				it.Unknown = append(it.Unknown, u)
			}
		}
		c.Items = append(c.Items, it)
	}
	return c
}

func (it c18Item) pb() *pboutput.Item {
	out := &pboutput.Item{BlockNum: it.Num, BlockId: string(it.ID), Cursor: string(it.Cursor)}
	if !it.NilPay {
		out.Payload = []byte(it.Payload)
	}
	if it.HasTS {
		out.Timestamp = &timestamppb.Timestamp{Seconds: it.Sec, Nanos: it.Nanos}
	}
	var raw []byte
	for _, u := range it.Unknown {
		if u.Varint {
			raw = protowire.AppendTag(raw, protowire.Number(u.Num), protowire.VarintType)
			raw = protowire.AppendVarint(raw, u.V)
		} else {
			raw = protowire.AppendTag(raw, protowire.Number(u.Num), protowire.BytesType)
			raw = protowire.AppendBytes(raw, []byte(u.B))
		}
	}
	if raw != nil {
		out.ProtoReflect().SetUnknown(raw)
	}
	return out
}

func itemEq(a, b *pboutput.Item) string {
	switch {
	case a.BlockNum != b.BlockNum:
		return fmt.Sprintf("block_num %d vs %d", a.BlockNum, b.BlockNum)
	case a.BlockId != b.BlockId:
		return fmt.Sprintf("block_id %q vs %q", a.BlockId, b.BlockId)
	case !bytes.Equal(a.Payload, b.Payload):
		return fmt.Sprintf("payload %d bytes vs %d bytes", len(a.Payload), len(b.Payload))
	case a.Cursor != b.Cursor:
		return fmt.Sprintf("cursor %q vs %q", a.Cursor, b.Cursor)
	case a.Timestamp.GetSeconds() != b.Timestamp.GetSeconds() || a.Timestamp.GetNanos() != b.Timestamp.GetNanos():
		return fmt.Sprintf("timestamp %v vs %v", a.Timestamp, b.Timestamp)
	case !bytes.Equal(a.ProtoReflect().GetUnknown(), b.ProtoReflect().GetUnknown()):
		return fmt.Sprintf("unknown fields %x vs %x", a.ProtoReflect().GetUnknown(), b.ProtoReflect().GetUnknown())
	}
	return ""
}

func itemsEq(what string, want map[string]*pboutput.Item, got map[string]*pboutput.Item) *ev.Failure {
	if len(want) != len(got) {
		return ev.Failf("execout/"+what+"/count", "%s: %d items, want %d", what, len(got), len(want))
	}
	for id, w := range want {
		g, ok := got[id]
		if !ok {
			return ev.Failf("execout/"+what+"/missing", "%s: item %q missing", what, id)
		}
		if d := itemEq(w, g); d != "" {
			return ev.Failf("execout/"+what+"/field", "%s: item %q differs: %s", what, id, d)
		}
	}
	return nil
}

func checkC18Out(c c18OutCase) *ev.Failure {
	want := map[string]*pboutput.Item{}
	arr := &pboutput.Array{}
	for _, it := range c.Items {
		p := it.pb()
		want[p.BlockId] = p
		arr.Items = append(arr.Items, p)
	}
	m := &pboutput.Map{Kv: want}

	// fast encoder -> standard decoder
	fast, err := m.MarshalFast()
	if err != nil {
		return ev.Failf("execout/marshal-fast-error", "MarshalFast: %v", err)
	}
	std := &pboutput.Array{}
	if err := proto.Unmarshal(fast, std); err != nil {
		return ev.Failf("execout/fast-to-std/reject", "standard decoder rejects the fast encoder's bytes: %v", err)
	}
	got := map[string]*pboutput.Item{}
	for _, it := range std.Items {
		got[it.BlockId] = it
	}
	if len(std.Items) != len(want) {
		return ev.Failf("execout/fast-to-std/count", "standard decoder sees %d items, want %d", len(std.Items), len(want))
	}
	if f := itemsEq("fast-to-std", want, got); f != nil {
		return f
	}

	// standard encoder -> fast decoder
	stdBytes, err := proto.Marshal(arr)
	if err != nil {
		return ev.Failf("execout/std-marshal-error", "proto.Marshal: %v", err)
	}
	back := &pboutput.Map{}
	if err := back.UnmarshalFast(stdBytes); err != nil {
		return ev.Failf("execout/std-to-fast/reject", "fast decoder rejects the standard encoder's bytes: %v", err)
	}
	if f := itemsEq("std-to-fast", want, back.Kv); f != nil {
		return f
	}

	// fast round trip
	rt := &pboutput.Map{}
	if err := rt.UnmarshalFast(fast); err != nil {
		return ev.Failf("execout/fast-roundtrip/reject", "fast decoder rejects the fast encoder's bytes: %v", err)
	}
	if f := itemsEq("fast-roundtrip", want, rt.Kv); f != nil {
		return f
	}
	return nil
}

func classifyC18Out(c c18OutCase) (bool, []string) {
	emptyField, bigVarint := false, false
	for _, it := range c.Items {
		if it.ID == "" || (it.Payload == "" && !it.NilPay) || it.NilPay || !it.HasTS {
			emptyField = true
		}
		if it.Num >= 1<<32 {
			bigVarint = true
		}
	}
	cl := []string{fmt.Sprintf("items<=%d", bucketInt(len(c.Items)))}
	return len(c.Items) >= 2 && emptyField && bigVarint, cl
}

func bucketInt(n int) int {
	for _, b := range []int{0, 1, 3, 12, 100, 2000} {
		if n <= b {
			return b
		}
	}
	return 1 << 30
}

func TestC18Outputs(t *testing.T) {
	ev.Get("C18", "Outputs").Rule = "rapid: maps of 0..12 (1 in 40: 500..2000) items keyed by block id: block numbers up to 2^64-1, ids and cursors arbitrary valid UTF-8, payload nil/empty/random/large, timestamp nil/negative/huge, 1 item in 4 with 1..3 fields unknown to the schema; MarshalFast->proto.Unmarshal(Array), proto.Marshal(Array)->UnmarshalFast, fast round trip, compared field by field; non-trivial = >=2 items with an empty field and a varint >= 2^32"
	ev.Prop(t, "C18", "Outputs", genC18Out, checkC18Out, classifyC18Out)
}

func TestC18OutputsReplay(t *testing.T) { ev.Replay(t, "C18", "Outputs", checkC18Out) }

// ---------------------------------------------------------------- store snapshots

type c18KV struct {
	K sdsl.Bin `json:"k"`
	V sdsl.Bin `json:"v"`
	N bool     `json:"nil,omitempty"`
}

type c18StoreCase struct {
	KV       []c18KV    `json:"kv"`
	Prefixes []sdsl.Bin `json:"prefixes"`
}

func genStoreData(t *rapid.T, binaryKeys bool) c18StoreCase {
	n := rapid.IntRange(0, 10).Draw(t, "n")
	if rapid.IntRange(0, 40).Draw(t, "many") == 0 {
		n = rapid.IntRange(500, 3000).Draw(t, "nmany")
	}
	var c c18StoreCase
	seen := map[string]bool{}
	for i := 0; i < n; i++ {
		var k string
		if binaryKeys && rapid.Bool().Draw(t, "binkey") {
			k = string(rapid.SliceOfN(rapid.Byte(), 1, 12).Draw(t, "key"))
		} else {
			k = genUTF8(t, "key")
		}
		if n > 100 {
			k = fmt.Sprintf("%s#%d", k, i)
		}
		if seen[k] {
			continue
		}
		seen[k] = true
		v, isNil := genPayload(t, "val", n > 100)
		c.KV = append(c.KV, c18KV{K: sdsl.Bin(k), V: sdsl.Bin(v), N: isNil})
	}
	np := rapid.IntRange(0, 4).Draw(t, "nprefixes")
	for i := 0; i < np; i++ {
		if binaryKeys && rapid.Bool().Draw(t, "binprefix") {
			c.Prefixes = append(c.Prefixes, sdsl.Bin(rapid.SliceOfN(rapid.Byte(), 0, 6).Draw(t, "prefix")))
		} else {
			c.Prefixes = append(c.Prefixes, sdsl.Bin(genUTF8(t, "prefix")))
		}
	}
	return c
}

func (c c18StoreCase) data() *marshaller.StoreData {
	d := &marshaller.StoreData{Kv: map[string][]byte{}}
	for _, e := range c.KV {
		if e.N {
			d.Kv[string(e.K)] = nil
		} else {
			d.Kv[string(e.K)] = []byte(e.V)
		}
	}
	for _, p := range c.Prefixes {
		d.DeletePrefixes = append(d.DeletePrefixes, string(p))
	}
	return d
}

func (c c18StoreCase) allUTF8() bool {
	for _, e := range c.KV {
		if !utf8.ValidString(string(e.K)) {
			return false
		}
	}
	for _, p := range c.Prefixes {
		if !utf8.ValidString(string(p)) {
			return false
		}
	}
	return true
}

func kvEq(what string, want, got map[string][]byte) *ev.Failure {
	if len(want) != len(got) {
		return ev.Failf("store/"+what+"/count", "%s: %d keys, want %d", what, len(got), len(want))
	}
	for k, w := range want {
		g, ok := got[k]
		if !ok {
			return ev.Failf("store/"+what+"/missing", "%s: key %q missing", what, k)
		}
		if !bytes.Equal(w, g) {
			return ev.Failf("store/"+what+"/value", "%s: key %q = %q want %q", what, k, g, w)
		}
	}
	return nil
}

func prefixesEq(what string, want, got []string) *ev.Failure {
	if len(want) != len(got) {
		return ev.Failf("store/"+what+"/prefixes", "%s: delete prefixes %q want %q", what, got, want)
	}
	for i := range want {
		if want[i] != got[i] {
			return ev.Failf("store/"+what+"/prefixes", "%s: delete prefixes %q want %q", what, got, want)
		}
	}
	return nil
}

func checkC18Store(c c18StoreCase) *ev.Failure {
	d := c.data()
	wantSize := sdsl.ByteSize(d.Kv)
	utf := c.allUTF8()

	type m struct {
		name     string
		m        marshaller.Marshaller
		prefixes bool // encodes DeletePrefixes
		utf8Only bool // goes through the standard encoder/decoder, which reject invalid UTF-8 in string fields
	}
	for _, mm := range []m{
		{"vtproto", &marshaller.VTproto{}, true, false},
		{"proto", &marshaller.Proto{}, true, true},
		{"protoing_fast", &marshaller.ProtoingFast{}, true, true},
		{"binary", &marshaller.Binary{}, false, false},
	} {
		if mm.utf8Only && !utf {
			continue
		}
		b, err := mm.m.Marshal(d)
		if err != nil {
			return ev.Failf("store/"+mm.name+"/marshal-error", "%s.Marshal: %v", mm.name, err)
		}
		back, size, err := mm.m.Unmarshal(b)
		if err != nil {
			return ev.Failf("store/"+mm.name+"/self-reject", "%s cannot read back what it wrote: %v", mm.name, err)
		}
		if f := kvEq(mm.name+"-roundtrip", d.Kv, back.Kv); f != nil {
			return f
		}
		if mm.prefixes {
			if f := prefixesEq(mm.name+"-roundtrip", d.DeletePrefixes, back.DeletePrefixes); f != nil {
				return f
			}
		}
		if mm.name == "vtproto" && size != wantSize {
			return ev.Failf("store/vtproto/size", "VTproto.Unmarshal reports size %d, keys+values total %d", size, wantSize)
		}
	}

	if utf {
		// fast/vt encoders -> standard decoder
		for name, enc := range map[string]marshaller.Marshaller{"vtproto": &marshaller.VTproto{}, "protoing_fast": &marshaller.ProtoingFast{}} {
			b, err := enc.Marshal(d)
			if err != nil {
				return ev.Failf("store/"+name+"/marshal-error", "%v", err)
			}
			std := &pbstore.StoreData{}
			if err := proto.Unmarshal(b, std); err != nil {
				return ev.Failf("store/"+name+"-to-std/reject", "standard decoder rejects %s bytes: %v", name, err)
			}
			if f := kvEq(name+"-to-std", d.Kv, std.Kv); f != nil {
				return f
			}
			if f := prefixesEq(name+"-to-std", d.DeletePrefixes, std.DeletePrefixes); f != nil {
				return f
			}
		}
		// standard encoder -> fast decoder
		b, err := proto.Marshal(&pbstore.StoreData{Kv: d.Kv, DeletePrefixes: d.DeletePrefixes})
		if err != nil {
			return ev.Failf("store/std-marshal-error", "%v", err)
		}
		back, size, err := (&marshaller.VTproto{}).Unmarshal(b)
		if err != nil {
			return ev.Failf("store/std-to-vtproto/reject", "fast decoder rejects the standard encoder's bytes: %v", err)
		}
		if f := kvEq("std-to-vtproto", d.Kv, back.Kv); f != nil {
			return f
		}
		if f := prefixesEq("std-to-vtproto", d.DeletePrefixes, back.DeletePrefixes); f != nil {
			return f
		}
		if size != wantSize {
			return ev.Failf("store/std-to-vtproto/size", "size %d, keys+values total %d", size, wantSize)
		}
	}
	return nil
}

func classifyC18Store(c c18StoreCase) (bool, []string) {
	empty := false
	for _, e := range c.KV {
		if e.V == "" {
			empty = true
		}
	}
	big := false
	for _, e := range c.KV {
		if len(e.V) >= 128 {
			big = true
		}
	}
	cl := []string{fmt.Sprintf("entries<=%d", bucketInt(len(c.KV)))}
	if !c.allUTF8() {
		cl = append(cl, "binary-keys")
	}
	sort.Strings(cl)
	return len(c.KV) >= 2 && empty && (big || len(c.Prefixes) > 0), cl
}

func TestC18Stores(t *testing.T) {
	ev.Get("C18", "Stores").Rule = "rapid: store contents of 0..10 (1 in 40: 500..3000) entries, keys valid UTF-8 or raw binary, values nil/empty/random/large (multi-byte length varints), 0..4 delete prefixes; every marshaller (VTproto, Proto, ProtoingFast, Binary) reads back what it wrote on the fields it encodes; VTproto/ProtoingFast bytes decode with proto.Unmarshal and proto.Marshal bytes decode with the VTproto decoder (UTF-8 contents; the standard codec rejects other strings); reported size == sum(len k + len v); non-trivial = >=2 entries with an empty value and a value >=128 bytes or a delete prefix"
	ev.Prop(t, "C18", "Stores", func(t *rapid.T) c18StoreCase { return genStoreData(t, true) }, checkC18Store, classifyC18Store)
}

func TestC18StoresReplay(t *testing.T) { ev.Replay(t, "C18", "Stores", checkC18Store) }
