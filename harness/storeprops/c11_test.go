package storeprops

// C11 — store size accounting is exact, so size limits are enforced consistently.

import (
	"testing"

	"pgregory.net/rapid"

	"verif/ev"
	"verif/sdsl"
)

func TestC11(t *testing.T) {
	ev.Get("C11", "SizeMachine").Rule = "rapid history machine over one FullKV, every kind in rotation: actions block(ops) | undo (reverse the top block's deltas) | redo (re-execute an undone block) | final | merge(partial built from 1..3 blocks, saved and reloaded) | saveload, total size limit lowered to 20..300 bytes in 2/3 of the cases; after every step SizeBytes()==sum(len key+len value), Length()==#keys, content == model of the current chain; Flush rejects with 'became too big' iff the content exceeds the limit right after some delta; non-trivial = a merge into an existing key, or an undo of a block with a delete or a value-changing update"
	kinds := sdsl.AllKinds()
	shard, _ := ev.Shard()
	r := ev.Get("C11", "SizeMachine")
	rapid.Check(t, func(rt *rapid.T) {
		kind := kinds[(shard+rapid.IntRange(0, len(kinds)-1).Draw(rt, "kind"))%len(kinds)]
		c := genHist(rt, kind, true, true)
		f := checkHist(c)
		u, m, cl := classifyHist(c)
		r.Case(c, u || m, cl...)
		r.Report(rt, c, f)
	})
}

func TestC11Replay(t *testing.T) { ev.Replay(t, "C11", "SizeMachine", checkHist) }
