package storeprops

import (
	"context"
	"fmt"
	"os"
	"path/filepath"
	"sync/atomic"
	"testing"

	"github.com/streamingfast/dstore"
	"github.com/streamingfast/substreams/metrics"
	pbsubstreams "github.com/streamingfast/substreams/pb/sf/substreams/v1"
	"github.com/streamingfast/substreams/storage/store"
	"github.com/streamingfast/substreams/wasm"
	"go.uber.org/zap"

	"verif/ev"
	"verif/sdsl"
)

func TestMain(m *testing.M) {
	dir, err := os.MkdirTemp(os.Getenv("VERIF_SCRATCH"), "stores-")
	if err != nil {
		panic(err)
	}
	scratch = dir
	code := m.Run()
	ev.Flush()
	os.RemoveAll(dir)
	os.Exit(code)
}

var (
	scratch string
	caseSeq atomic.Uint64
	nop     = zap.NewNop()
	stats   = metrics.NewReqStats(&metrics.Config{}, zap.NewNop())
	ctx     = context.Background()
)

// env is one case's store configuration on its own directory.
type env struct {
	kind sdsl.Kind
	cfg  *store.Config
	dir  string
}

func newEnv(kind sdsl.Kind, initialBlock uint64) *env {
	n := caseSeq.Add(1)
	dir := filepath.Join(scratch, fmt.Sprintf("c%d", n))
	base, err := dstore.NewStore(dir, "", "", true) // uncompressed: zstd encoder set-up costs 5 ms per file and is not under test
	if err != nil {
		panic(err)
	}
	cfg, err := store.NewConfig("st", initialBlock, "hash", kind.PB(), kind.VType, base)
	if err != nil {
		panic(err)
	}
	return &env{kind: kind, cfg: cfg, dir: dir}
}

func (e *env) close() { os.RemoveAll(e.dir) }

// execBlock runs one block of operations on st exactly as the store module
// executor does: a new call (which resets the store), the host calls, Flush.
func execBlock(st store.Store, kind sdsl.Kind, num uint64, ops []sdsl.Op) (call *wasm.Call, err error) {
	defer func() {
		if r := recover(); r != nil {
			err = fmt.Errorf("host call panicked: %v", r)
		}
	}()
	clock := &pbsubstreams.Clock{Number: num, Id: fmt.Sprintf("b%d", num)}
	call = wasm.NewCall(clock, "st", "st", stats, []wasm.Argument{wasm.NewStoreWriterOutput("st", st, kind.PB(), kind.VType)})
	for _, o := range ops {
		sdsl.Apply(call, kind, o)
	}
	return call, st.Flush()
}

type saver interface {
	Save(endBoundaryBlock uint64) (*store.FileInfo, interface{ Write(context.Context) error }, error)
}

func nontrivialKeyTwice(blocks [][]sdsl.Op) bool {
	seen := map[string]int{}
	for _, b := range blocks {
		for _, o := range b {
			if !o.Del {
				seen[string(o.Key)]++
				if seen[string(o.Key)] >= 2 {
					return true
				}
			}
		}
	}
	return false
}

type ctxT = context.Context

// saveOf adapts the unexported writer type returned by Save.
func saveOf[W interface{ Write(context.Context) error }](f *store.FileInfo, w W, err error) (*store.FileInfo, interface{ Write(context.Context) error }, error) {
	return f, w, err
}
