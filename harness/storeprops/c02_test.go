package storeprops

// C02 — squashing per-segment partial stores equals sequential store execution.

import (
	"fmt"
	"strings"
	"testing"

	"pgregory.net/rapid"

	"verif/ev"
	"verif/sdsl"
)

type c02Case struct {
	Kind      sdsl.Kind   `json:"kind"`
	Base      uint64      `json:"base"`       // number of the first block
	Blocks    [][]sdsl.Op `json:"blocks"`     // operations per block
	Cuts      []int       `json:"cuts"`       // segment i = blocks [Cuts[i], Cuts[i+1]); Cuts[0]=0, last=len(Blocks)
	FirstFull bool        `json:"first_full"` // first segment computed as a full store (as tier2 does at the store's initial block)
}

func genC02(t *rapid.T, kind sdsl.Kind) c02Case {
	c := c02Case{Kind: kind, Base: rapid.SampledFrom([]uint64{0, 1, 10, 95}).Draw(t, "base")}
	c.Blocks = sdsl.GenBlocks(t, kind, rapid.SampledFrom([]int{1, 2, 2, 3}).Draw(t, "minblocks"), 6, 5, 18)
	nseg := rapid.SampledFrom([]int{1, 2, 2, 3, 3, 4}).Draw(t, "nseg")
	if nseg > len(c.Blocks) {
		nseg = len(c.Blocks)
	}
	// choose nseg-1 distinct cut points in 1..len-1
	cutset := map[int]bool{}
	for len(cutset) < nseg-1 {
		cutset[rapid.IntRange(1, len(c.Blocks)-1).Draw(t, "cut")] = true
	}
	c.Cuts = []int{0}
	for i := 1; i < len(c.Blocks); i++ {
		if cutset[i] {
			c.Cuts = append(c.Cuts, i)
		}
	}
	c.Cuts = append(c.Cuts, len(c.Blocks))
	c.FirstFull = rapid.Bool().Draw(t, "first_full")
	return c
}

func checkC02(c c02Case) *ev.Failure {
	e := newEnv(c.Kind, c.Base)
	defer e.close()
	tag := c.Kind.String()

	// reference model and sequential store
	model := sdsl.NewModel(c.Kind)
	seq := e.cfg.NewFullKV(nop)
	for i, ops := range c.Blocks {
		model.ApplyBlock(ops)
		if _, err := execBlock(seq, c.Kind, c.Base+uint64(i), ops); err != nil {
			return ev.Failf("seq-error/"+tag, "sequential execution of block %d failed: %v", i, err)
		}
	}
	seq.Reset()

	// segmented execution
	merged := e.cfg.NewFullKV(nop)
	for s := 0; s+1 < len(c.Cuts); s++ {
		from, to := c.Cuts[s], c.Cuts[s+1]
		startBlock, endBlock := c.Base+uint64(from), c.Base+uint64(to)
		if s == 0 && c.FirstFull {
			for i := from; i < to; i++ {
				if _, err := execBlock(merged, c.Kind, c.Base+uint64(i), c.Blocks[i]); err != nil {
					return ev.Failf("seg-error/"+tag, "first (full) segment block %d failed: %v", i, err)
				}
			}
			merged.Reset()
			file, w, err := merged.Save(endBlock)
			if err != nil {
				return ev.Failf("save-error/"+tag, "full save: %v", err)
			}
			if err := w.Write(ctx); err != nil {
				return ev.Failf("save-error/"+tag, "full write: %v", err)
			}
			merged = e.cfg.NewFullKV(nop)
			if err := merged.Load(ctx, file); err != nil {
				return ev.Failf("load-error/"+tag, "full load: %v", err)
			}
			continue
		}
		part := e.cfg.NewPartialKV(startBlock, nop)
		for i := from; i < to; i++ {
			if _, err := execBlock(part, c.Kind, c.Base+uint64(i), c.Blocks[i]); err != nil {
				return ev.Failf("seg-error/"+tag, "partial segment %d block %d failed: %v", s, i, err)
			}
		}
		part.Reset()
		file, w, err := part.Save(endBlock)
		if err != nil {
			return ev.Failf("save-error/"+tag, "partial save: %v", err)
		}
		if err := w.Write(ctx); err != nil {
			return ev.Failf("save-error/"+tag, "partial write: %v", err)
		}
		loaded := e.cfg.NewPartialKV(startBlock, nop)
		if err := loaded.Load(ctx, file); err != nil {
			return ev.Failf("load-error/"+tag, "partial load: %v", err)
		}
		if err := merged.Merge(loaded); err != nil {
			return ev.Failf("merge-error/"+tag, "merge of segment %d: %v", s, err)
		}
	}

	seqKV, mergedKV := sdsl.Snapshot(seq), sdsl.Snapshot(merged)
	dSeq := sdsl.DiffModel(c.Kind, seqKV, model)
	dMerged := sdsl.DiffModel(c.Kind, mergedKV, model)
	dBoth := sdsl.DiffStores(c.Kind, seqKV, mergedKV)
	switch {
	case dBoth != "" && dMerged != "" && dSeq == "":
		return ev.Failf("merged-differs/"+tag, "merged store differs from sequential store and from the model (sequential agrees with the model): %s", dBoth)
	case dBoth != "" && dSeq != "" && dMerged == "":
		return ev.Failf("sequential-differs/"+tag, "sequential store differs from merged store and from the model (merged agrees with the model): %s", dBoth)
	case dBoth != "":
		return ev.Failf("both-differ/"+tag, "merged vs sequential: %s | sequential vs model: %s | merged vs model: %s", dBoth, dSeq, dMerged)
	case dSeq != "":
		return ev.Failf("model-differs/"+tag, "stores agree with each other but not with the model: %s", dSeq)
	}
	return nil
}

func classifyC02(c c02Case) (bool, []string) {
	nseg := len(c.Cuts) - 1
	// key written in two segments, or delete_prefix in a later segment matching a key of an earlier one
	segOf := func(i int) int {
		for s := 0; s+1 < len(c.Cuts); s++ {
			if i >= c.Cuts[s] && i < c.Cuts[s+1] {
				return s
			}
		}
		return -1
	}
	firstSeg := map[string]int{}
	cross, delCross := false, false
	for i, b := range c.Blocks {
		s := segOf(i)
		for _, o := range b {
			if o.Del {
				for k, fs := range firstSeg {
					if fs < s && strings.HasPrefix(k, string(o.Key)) {
						delCross = true
					}
				}
				continue
			}
			if fs, ok := firstSeg[string(o.Key)]; ok {
				if fs != s {
					cross = true
				}
			} else {
				firstSeg[string(o.Key)] = s
			}
		}
	}
	cl := []string{"kind=" + c.Kind.String(), fmt.Sprintf("segments=%d", nseg)}
	if cross {
		cl = append(cl, "key-in-two-segments")
	}
	if delCross {
		cl = append(cl, "delete-prefix-across-segments")
	}
	return nseg >= 2 && (cross || delCross), cl
}

func TestC02(t *testing.T) {
	ev.Get("C02", "Squash").Rule = "rapid: for each of the enumerated (policy,value type) kinds in turn, 1..6 blocks x 0..5 ops (18% delete_prefix) with arbitrary ordinals over a shared-prefix/binary key alphabet, cut into 1..4 segments; sequential FullKV vs partials saved, reloaded and merged in order, both compared typed with an independent model; non-trivial = >=2 segments and (a key written in two segments or a later delete_prefix matching an earlier key); distinct by full case"
	kinds := sdsl.AllKinds()
	shard, _ := ev.Shard()
	n := shard // rotate kinds so that every kind is forced equally often
	ev.Prop(t, "C02", "Squash", func(t *rapid.T) c02Case {
		kind := kinds[(n+rapid.IntRange(0, len(kinds)-1).Draw(t, "kind"))%len(kinds)]
		return genC02(t, kind)
	}, checkC02, classifyC02)
	ev.Get("C02", "Squash").Count("kinds_enumerated", len(kinds))
}

func TestC02Replay(t *testing.T) { ev.Replay(t, "C02", "Squash", checkC02) }
