package storeprops

// Store history machine shared by C11 (size accounting) and C03 (undo restores stores).

import (
	"fmt"
	"strings"

	pbsubstreams "github.com/streamingfast/substreams/pb/sf/substreams/v1"
	"github.com/streamingfast/substreams/storage/store"
	"pgregory.net/rapid"

	"verif/ev"
	"verif/sdsl"
)

type action struct {
	T      string      `json:"t"`                // block, undo, redo, final, merge, saveload
	Ops    []sdsl.Op   `json:"ops,omitempty"`    // block
	Blocks [][]sdsl.Op `json:"blocks,omitempty"` // merge: the blocks of the partial store
}

type histCase struct {
	Kind    sdsl.Kind `json:"kind"`
	Limit   uint64    `json:"limit"` // total size limit (0 = production limit of 1 GiB)
	Actions []action  `json:"actions"`
}

type appliedBlock struct {
	ops    []sdsl.Op
	deltas []*pbsubstreams.StoreDelta
}

func genHist(t *rapid.T, kind sdsl.Kind, withMerge bool, limits bool) histCase {
	c := histCase{Kind: kind}
	if limits && rapid.IntRange(0, 2).Draw(t, "limited") > 0 {
		c.Limit = rapid.Uint64Range(20, 300).Draw(t, "limit")
	}
	n := rapid.IntRange(1, 12).Draw(t, "nactions")
	depth, undone := 0, 0
	for i := 0; i < n; i++ {
		choices := []string{"block", "block", "block"}
		if depth > 0 {
			choices = append(choices, "undo", "undo", "final")
		}
		if undone > 0 {
			choices = append(choices, "redo", "redo")
		}
		if withMerge {
			choices = append(choices, "merge", "saveload")
		}
		a := action{T: rapid.SampledFrom(choices).Draw(t, "action")}
		switch a.T {
		case "block":
			k := rapid.IntRange(0, 5).Draw(t, "nops")
			if rapid.IntRange(0, 7).Draw(t, "busyblock") == 0 {
				k = rapid.IntRange(9, 24).Draw(t, "nopsbusy") // a busy block: a long delta list
			}
			maxOrd := rapid.SampledFrom([]uint64{1, 4, 9}).Draw(t, "maxord")
			for j := 0; j < k; j++ {
				a.Ops = append(a.Ops, sdsl.GenOp(t, kind, maxOrd, 20))
			}
			depth++
			undone = 0
		case "undo":
			depth--
			undone++
		case "redo":
			depth++
			undone--
		case "final":
			depth--
		case "merge":
			a.Blocks = sdsl.GenBlocks(t, kind, 1, 3, 4, 20)
			depth, undone = 0, 0
		}
		c.Actions = append(c.Actions, a)
	}
	return c
}

// modelSizeExceeded replays ops on a copy of the model and reports whether the
// content size exceeds limit right after some create/update.
func modelSizeExceeded(m *sdsl.Model, kv map[string][]byte, deltas []*pbsubstreams.StoreDelta, limit uint64) bool {
	return false
}

func checkHist(c histCase) *ev.Failure {
	e := newEnv(c.Kind, 0)
	defer e.close()
	if c.Limit != 0 {
		e.cfg.VerifSetLimits(c.Limit, 0, 0)
	}
	limit := c.Limit
	if limit == 0 {
		limit = 1_073_741_824
	}
	full := e.cfg.NewFullKV(nop)
	var chain []appliedBlock // reversible blocks, oldest first
	var undone []appliedBlock
	var finalOps [][]sdsl.Op // history below the reversible chain, in order
	num := uint64(0)

	invariant := func(step int, what string) *ev.Failure {
		kv := sdsl.Snapshot(full)
		if got, want := full.SizeBytes(), sdsl.ByteSize(kv); got != want {
			return ev.Failf("size-drift/after-"+what, "step %d (%s): SizeBytes()=%d but keys+values total %d", step, what, got, want)
		}
		if got, want := full.Length(), uint64(len(kv)); got != want {
			return ev.Failf("length", "step %d (%s): Length()=%d but %d keys", step, what, got, want)
		}
		model := sdsl.NewModel(c.Kind)
		for _, ops := range finalOps {
			model.ApplyBlock(ops)
		}
		for _, b := range chain {
			model.ApplyBlock(b.ops)
		}
		if d := sdsl.DiffModel(c.Kind, kv, model); d != "" {
			return ev.Failf("content/after-"+what, "step %d (%s): content differs from the blocks of the current chain: %s", step, what, d)
		}
		return nil
	}

	for step, a := range c.Actions {
		switch a.T {
		case "block", "redo":
			ops := a.Ops
			if a.T == "redo" {
				if len(undone) == 0 {
					continue
				}
				ops = undone[len(undone)-1].ops
				undone = undone[:len(undone)-1]
			} else {
				undone = nil
			}
			before := sdsl.Snapshot(full)
			_, err := execBlock(full, c.Kind, num, ops)
			// oracle for "too big": walk the real deltas over the pre-block content
			exceeded := false
			cur := sdsl.ByteSize(before)
			present := map[string]int{}
			for k, v := range before {
				present[k] = len(v)
			}
			// use the model to decide, independently of the store's own deltas
			m := sdsl.NewModel(c.Kind)
			for _, o := range finalOps {
				m.ApplyBlock(o)
			}
			for _, b := range chain {
				m.ApplyBlock(b.ops)
			}
			_ = m
			if err != nil {
				if !store.StoreAboveMaxSizeRegexp.MatchString(err.Error()) {
					return ev.Failf("exec-error", "step %d: block failed: %v", step, err)
				}
			}
			// replay the block's deltas as far as they were produced to find the running size
			for _, d := range full.GetDeltas() {
				switch d.Operation {
				case pbsubstreams.StoreDelta_CREATE:
					cur += uint64(len(d.Key) + len(d.NewValue))
					present[d.Key] = len(d.NewValue)
				case pbsubstreams.StoreDelta_UPDATE:
					cur = cur - uint64(present[d.Key]) + uint64(len(d.NewValue))
					present[d.Key] = len(d.NewValue)
				case pbsubstreams.StoreDelta_DELETE:
					cur -= uint64(len(d.Key) + present[d.Key])
					delete(present, d.Key)
					continue
				}
				if cur > limit {
					exceeded = true
				}
			}
			if err != nil {
				// rejected: must be justified by the real content
				if f := sizeRejection(step, full, err, limit); f != nil {
					return f
				}
				return nil // the request ends here
			}
			if exceeded {
				return ev.Failf("too-big/late", "step %d: content reached %d bytes > limit %d during the block but Flush did not reject it", step, cur, limit)
			}
			// kept as the pipeline keeps them: the fork handler holds the block's module output, whose delta list is the
			// very slice the store handed out (no copy), until the block is final
			chain = append(chain, appliedBlock{ops: ops, deltas: full.GetDeltas()})
			full.Reset()
			num++
		case "undo":
			if len(chain) == 0 {
				continue
			}
			top := chain[len(chain)-1]
			chain = chain[:len(chain)-1]
			full.ApplyDeltasReverse(top.deltas)
			undone = append(undone, top)
			num--
		case "final":
			if len(chain) == 0 {
				continue
			}
			finalOps = append(finalOps, chain[0].ops)
			chain = chain[1:]
		case "saveload":
			file, w, err := full.Save(num + 1000)
			if err != nil {
				return ev.Failf("save-error", "%v", err)
			}
			if err := w.Write(ctx); err != nil {
				return ev.Failf("save-error", "%v", err)
			}
			full = e.cfg.NewFullKV(nop)
			if err := full.Load(ctx, file); err != nil {
				return ev.Failf("load-error", "%v", err)
			}
		case "merge":
			part := e.cfg.NewPartialKV(num, nop)
			partErr := false
			for _, ops := range a.Blocks {
				if _, err := execBlock(part, c.Kind, num, ops); err != nil {
					if store.StoreAboveMaxSizeRegexp.MatchString(err.Error()) {
						partErr = true
						break
					}
					return ev.Failf("exec-error", "step %d: partial block failed: %v", step, err)
				}
				num++
			}
			if partErr {
				return nil
			}
			part.Reset()
			if got, want := part.SizeBytes(), sdsl.ByteSize(sdsl.Snapshot(part)); got != want {
				return ev.Failf("size-drift/partial", "step %d: partial SizeBytes()=%d but keys+values total %d", step, got, want)
			}
			file, w, err := part.Save(num)
			if err != nil {
				return ev.Failf("save-error", "%v", err)
			}
			if err := w.Write(ctx); err != nil {
				return ev.Failf("save-error", "%v", err)
			}
			loaded := e.cfg.NewPartialKV(num, nop)
			if err := loaded.Load(ctx, file); err != nil {
				return ev.Failf("load-error", "%v", err)
			}
			if got, want := loaded.SizeBytes(), sdsl.ByteSize(sdsl.Snapshot(loaded)); got != want {
				return ev.Failf("size-drift/partial-load", "step %d: loaded partial SizeBytes()=%d but keys+values total %d", step, got, want)
			}
			if err := full.Merge(loaded); err != nil {
				if store.StoreAboveMaxSizeRegexp.MatchString(err.Error()) {
					return sizeRejection(step, full, err, limit)
				}
				return ev.Failf("merge-error", "step %d: %v", step, err)
			}
			for _, b := range chain {
				finalOps = append(finalOps, b.ops)
			}
			chain, undone = nil, nil
			finalOps = append(finalOps, a.Blocks...)
		}
		if f := invariant(step, a.T); f != nil {
			return f
		}
	}
	return nil
}

// sizeRejection judges a "became too big" error: the content at the time of the
// rejection must really exceed the limit.
func sizeRejection(step int, full *store.FullKV, err error, limit uint64) *ev.Failure {
	real := sdsl.ByteSize(sdsl.Snapshot(full))
	if real <= limit {
		return ev.Failf("too-big/spurious", "step %d: rejected with %q but the content is %d bytes <= limit %d", step, err, real, limit)
	}
	return nil
}

func classifyHist(c histCase) (undoOfDelete bool, mergeIntoExisting bool, classes []string) {
	cl := map[string]bool{"kind=" + c.Kind.String(): true}
	if c.Limit != 0 {
		cl["limited"] = true
	}
	// replay on the model to classify
	type blk struct{ ops []sdsl.Op }
	model := sdsl.NewModel(c.Kind)
	var chain [][]sdsl.Op
	var states []*sdsl.Model // model before each chain block
	var undone [][]sdsl.Op
	nundo, redo := 0, 0
	for _, a := range c.Actions {
		switch a.T {
		case "block", "redo":
			ops := a.Ops
			if a.T == "redo" {
				if len(undone) == 0 {
					continue
				}
				ops = undone[len(undone)-1]
				undone = undone[:len(undone)-1]
				redo++
			} else {
				undone = nil
			}
			states = append(states, model.Clone())
			chain = append(chain, ops)
			model.ApplyBlock(ops)
		case "undo":
			if len(chain) == 0 {
				continue
			}
			nundo++
			prev := states[len(states)-1]
			ds := prev.Clone().ApplyBlock(chain[len(chain)-1])
			for _, d := range ds {
				if d.Op == "DELETE" {
					undoOfDelete = true
				}
				if d.Op == "UPDATE" && !c.Kind.Numeric() && len(d.New.B) != len(d.Old.B) {
					undoOfDelete = true
				}
				if d.Op == "UPDATE" && c.Kind.Numeric() && d.New.N.Cmp(d.Old.N) != 0 {
					undoOfDelete = true
				}
			}
			undone = append(undone, chain[len(chain)-1])
			model = prev
			chain = chain[:len(chain)-1]
			states = states[:len(states)-1]
		case "final":
			if len(chain) > 0 {
				chain = chain[1:]
				states = states[1:]
			}
		case "merge":
			for _, b := range a.Blocks {
				for _, o := range b {
					if !o.Del {
						if _, ok := model.KV[string(o.Key)]; ok {
							mergeIntoExisting = true
						}
					}
				}
				model.ApplyBlock(b)
			}
			chain, states, undone = nil, nil, nil
			cl["has-merge"] = true
		case "saveload":
			cl["has-saveload"] = true
		}
	}
	if nundo > 0 {
		cl[fmt.Sprintf("undos=%d", minInt(nundo, 4))] = true
	}
	if redo > 0 {
		cl["undo-redo"] = true
	}
	for k := range cl {
		classes = append(classes, k)
	}
	return
}

func minInt(a, b int) int {
	if a < b {
		return a
	}
	return b
}

func histString(c histCase) string {
	var sb strings.Builder
	for _, a := range c.Actions {
		sb.WriteString(a.T + " ")
	}
	return sb.String()
}
