// Package pgen generates runnable synthetic programs: a valid module graph whose
// single binary is a dslrt.Program describing what every module does.
package pgen

import (
	"fmt"
	"strings"

	pbsubstreams "github.com/streamingfast/substreams/pb/sf/substreams/v1"
	"pgregory.net/rapid"

	"verif/dslrt"
	"verif/gdsl"
	"verif/sdsl"
)

// Prog is a generated program.
type Prog struct {
	Graph gdsl.Graph                 `json:"graph"`
	Beh   map[string]dslrt.Behaviour `json:"behaviours"` // by module name (= entrypoint)
	Seed  uint64                     `json:"seed"`
}

// Modules renders the program as a request's module list: one binary holding the whole program.
func (p Prog) Modules() *pbsubstreams.Modules {
	g := p.Graph.Clone()
	prog := dslrt.Program{Seed: p.Seed, Mods: map[string]dslrt.Behaviour{}}
	for i := range g.Mods {
		g.Mods[i].Binary = 0
		g.Mods[i].Entry = g.Mods[i].Name
		prog.Mods[g.Mods[i].Name] = p.Beh[g.Mods[i].Name]
	}
	g.Bins = []gdsl.Bin{{Type: "wasm/rust-v1", Content: sdsl.Bin(prog.Encode())}}
	return g.PB()
}

func (p Prog) Mod(name string) gdsl.Mod { return p.Graph.Mods[p.Graph.Index(name)] }

// Maps returns the names of the map modules (candidate output modules).
func (p Prog) Maps() (out []string) {
	for _, m := range p.Graph.Mods {
		if m.Kind == "map" {
			out = append(out, m.Name)
		}
	}
	return
}

// StoreKinds returns the kind of every store module.
func (p Prog) StoreKinds() map[string]sdsl.Kind {
	out := map[string]sdsl.Kind{}
	for _, m := range p.Graph.Mods {
		if m.Kind == "store" {
			out[m.Name] = sdsl.Kind{Policy: m.Policy, VType: m.VType}
		}
	}
	return out
}

// DependsOnStore says whether the module's output depends (transitively) on a store.
func (p Prog) DependsOnStore(name string) bool {
	for a := range p.Graph.Ancestors(name) {
		if p.Mod(a).Kind == "store" {
			return true
		}
	}
	return false
}

var readFns = []string{"get_first", "get_last", "get_at", "has_first", "has_last", "has_at"}

// Opts steers Gen.
type Opts struct {
	MinMods, MaxMods int
	InitialBlocks    []uint64
	ForceStoreOutput bool // make sure some map reads a store
}

// Gen draws a program.
func Gen(t *rapid.T, o Opts) Prog {
	g := gdsl.GenGraph(t, gdsl.Opts{MinMods: o.MinMods, MaxMods: o.MaxMods, InitialBlocks: o.InitialBlocks})
	if o.ForceStoreOutput {
		// append a map reading a store (and the clock) when there is a store but no map reads one
		var stores []gdsl.Mod
		for _, m := range g.Mods {
			if m.Kind == "store" {
				stores = append(stores, m)
			}
		}
		if len(stores) == 0 {
			k := sdsl.AllKinds()[rapid.IntRange(0, len(sdsl.AllKinds())-1).Draw(t, "forcedstorekind")]
			s := gdsl.Mod{Name: fmt.Sprintf("store_%d", len(g.Mods)), Kind: "store", Policy: k.Policy, VType: k.VType,
				Initial: rapid.SampledFrom(o.InitialBlocks).Draw(t, "forcedstoreinit"), Inputs: []gdsl.In{{T: "source", Ref: gdsl.BlockType}}}
			s.Entry = s.Name
			g.Mods = append(g.Mods, s)
			stores = append(stores, s)
		}
		s := stores[rapid.IntRange(0, len(stores)-1).Draw(t, "forcedstore")]
		m := gdsl.Mod{Name: fmt.Sprintf("map_%d", len(g.Mods)), Kind: "map", Initial: s.Initial + rapid.SampledFrom([]uint64{0, 0, 1, 4}).Draw(t, "forcedabove")}
		m.Entry = m.Name
		m.Inputs = []gdsl.In{{T: "source", Ref: rapid.SampledFrom([]string{gdsl.ClockType, gdsl.BlockType}).Draw(t, "forcedsrc")},
			{T: "store", Ref: s.Name, Mode: rapid.SampledFrom([]string{"get", "get", "deltas"}).Draw(t, "forcedmode")}}
		g.Mods = append(g.Mods, m)
	}
	if rapid.IntRange(0, 9).Draw(t, "downstreamonly") < 3 {
		// a mapper driven only by other modules' outputs (no block, no clock): tier2 may then skip the block source
		var maps, stores []gdsl.Mod
		for _, m := range g.Mods {
			switch m.Kind {
			case "map":
				maps = append(maps, m)
			case "store":
				stores = append(stores, m)
			}
		}
		if len(maps) > 0 {
			src := maps[rapid.IntRange(0, len(maps)-1).Draw(t, "downsrc")]
			m := gdsl.Mod{Name: fmt.Sprintf("map_%d", len(g.Mods)), Kind: "map", Initial: src.Initial + rapid.SampledFrom([]uint64{0, 0, 2}).Draw(t, "downabove")}
			m.Entry = m.Name
			m.Inputs = []gdsl.In{{T: "map", Ref: src.Name}}
			if len(stores) > 0 && rapid.Bool().Draw(t, "downstore") {
				st := stores[rapid.IntRange(0, len(stores)-1).Draw(t, "downstoreref")]
				m.Inputs = append(m.Inputs, gdsl.In{T: "store", Ref: st.Name, Mode: rapid.SampledFrom([]string{"get", "deltas"}).Draw(t, "downmode")})
			}
			g.Mods = append(g.Mods, m)
		}
	}
	return GenBehaviours(t, g)
}

// GenBehaviours draws what every module of a given graph does.
func GenBehaviours(t *rapid.T, g gdsl.Graph) Prog {
	p := Prog{Graph: g, Beh: map[string]dslrt.Behaviour{}, Seed: rapid.Uint64Range(1, 1<<30).Draw(t, "seed")}
	for i, m := range g.Mods {
		b := dslrt.Behaviour{Kind: m.Kind, Seed: p.Seed*1000 + uint64(i)}
		nget := 0
		for _, in := range m.Inputs {
			if in.T == "store" && in.Mode != "deltas" {
				nreads := rapid.IntRange(1, 3).Draw(t, "nreads")
				for r := 0; r < nreads; r++ {
					b.Reads = append(b.Reads, dslrt.Read{Store: nget, Fn: rapid.SampledFrom(readFns).Draw(t, "readfn"),
						Key: rapid.SampledFrom(dslrt.StoreKeys).Draw(t, "readkey"), Ord: rapid.Uint64Range(0, 6).Draw(t, "readord")})
				}
				nget++
			}
			if in.T == "store" && in.Mode == "deltas" {
				b.DeltaInputs = append(b.DeltaInputs, in.Ref)
			}
		}
		switch m.Kind {
		case "map":
			b.Sparse = rapid.SampledFrom([]uint64{0, 0, 2, 3}).Draw(t, "sparse")
			b.SkipEmpty = rapid.Bool().Draw(t, "skipempty")
		case "store":
			b.StoreKind = sdsl.Kind{Policy: m.Policy, VType: m.VType}
			b.MaxOps = 3
			b.DelPct = rapid.SampledFrom([]int{0, 10, 25}).Draw(t, "delpct")
		case "index":
			b.Keys = []string{"k0", "k1", "k2", "k3"}
		}
		p.Beh[m.Name] = b
	}
	return p
}

// GenChain draws a program whose stores form a chain of `depth` stages (each store reads the previous one)
// below an output mapper: the shape with the most scheduling dependencies per segment.
// ChainOpts tunes GenChainOpts.
type ChainOpts struct {
	Late     []uint64 // candidate initial blocks of a late lowest stage (1 case in 3)
	Siblings bool     // every stage has a second store
}

func GenChain(t *rapid.T, depth int, inits []uint64, late ...uint64) Prog {
	return GenChainOpts(t, depth, inits, ChainOpts{Late: late})
}

func GenChainOpts(t *rapid.T, depth int, inits []uint64, o ChainOpts) Prog {
	late := o.Late
	g := gdsl.Graph{}
	kindsAll := sdsl.AllKinds()
	prev := ""
	for i := 0; i < depth; i++ {
		k := kindsAll[rapid.IntRange(0, len(kindsAll)-1).Draw(t, "chainkind")]
		m := gdsl.Mod{Name: fmt.Sprintf("store_%d", i), Kind: "store", Policy: k.Policy, VType: k.VType, Initial: rapid.SampledFrom(inits).Draw(t, "chaininit")}
		m.Inputs = []gdsl.In{{T: "source", Ref: rapid.SampledFrom([]string{gdsl.BlockType, gdsl.ClockType}).Draw(t, "chainsrc")}}
		if prev != "" {
			m.Inputs = append(m.Inputs, gdsl.In{T: "store", Ref: prev, Mode: rapid.SampledFrom([]string{"get", "get", "deltas"}).Draw(t, "chainmode")})
		}
		if o.Siblings || rapid.IntRange(0, 3).Draw(t, "sibling") == 0 {
			// a second store in the same stage
			sb := gdsl.Mod{Name: fmt.Sprintf("side_%d", i), Kind: "store", Policy: "set", VType: "string", Initial: rapid.SampledFrom(inits).Draw(t, "sideinit"),
				Inputs: []gdsl.In{{T: "source", Ref: gdsl.BlockType}}}
			if prev != "" {
				sb.Inputs = append(sb.Inputs, gdsl.In{T: "store", Ref: prev, Mode: "get"})
			}
			g.Mods = append(g.Mods, sb)
		}
		g.Mods = append(g.Mods, m)
		prev = m.Name
	}
	if len(late) > 0 && rapid.IntRange(0, 2).Draw(t, "latefirst") == 0 {
		// the lowest stage starts late (several segments in) while the stages above it start early: below that
		// block the lowest stage has nothing to build
		for i := range g.Mods {
			if g.Mods[i].Name == "store_0" || g.Mods[i].Name == "side_0" {
				g.Mods[i].Initial = rapid.SampledFrom(late).Draw(t, "lateinit")
			} else {
				g.Mods[i].Initial = rapid.SampledFrom([]uint64{0, 0, 1}).Draw(t, "earlyinit")
			}
		}
	}
	out := gdsl.Mod{Name: "out", Kind: "map", Initial: rapid.SampledFrom(inits).Draw(t, "outinit"),
		Inputs: []gdsl.In{{T: "source", Ref: gdsl.ClockType}, {T: "store", Ref: prev, Mode: rapid.SampledFrom([]string{"get", "deltas"}).Draw(t, "outmode")}}}
	for _, m := range g.Mods {
		if strings.HasPrefix(m.Name, "side_") {
			out.Inputs = append(out.Inputs, gdsl.In{T: "store", Ref: m.Name, Mode: "get"}) // the second store of a stage is used too
		}
	}
	g.Mods = append(g.Mods, out)
	for i := range g.Mods {
		g.Mods[i].Entry = g.Mods[i].Name
	}
	p := Prog{Graph: g, Beh: map[string]dslrt.Behaviour{}, Seed: rapid.Uint64Range(1, 1<<30).Draw(t, "seed")}
	for i, m := range g.Mods {
		b := dslrt.Behaviour{Kind: m.Kind, Seed: p.Seed*1000 + uint64(i)}
		nget := 0
		for _, in := range m.Inputs {
			if in.T == "store" && in.Mode != "deltas" {
				b.Reads = append(b.Reads, dslrt.Read{Store: nget, Fn: rapid.SampledFrom(readFns).Draw(t, "readfn"), Key: rapid.SampledFrom(dslrt.StoreKeys).Draw(t, "readkey"), Ord: rapid.Uint64Range(0, 6).Draw(t, "readord")})
				nget++
			}
			if in.T == "store" && in.Mode == "deltas" {
				b.DeltaInputs = append(b.DeltaInputs, in.Ref)
			}
		}
		if m.Kind == "store" {
			b.StoreKind = sdsl.Kind{Policy: m.Policy, VType: m.VType}
			b.MaxOps = 3
			b.DelPct = 10
		}
		p.Beh[m.Name] = b
	}
	return p
}
