package world

import (
	"context"
	"io"
	"runtime"
	"strings"
	"sync"
	"time"

	"github.com/streamingfast/dstore"
)

// LateReads turns one thread interleaving of the squasher into a schedule the harness owns.
//
// stage.getPartialOrFullKV loads the partial store of the segment being merged and, concurrently, the full
// store at the end of that segment (in case it exists already); it returns with whichever is loaded first and
// leaves the other goroutine running. When both files exist, the read of the full store can complete after the
// partial was picked, arbitrarily later on a slow object store. LateReads wraps the dstore handed to the store
// configurations of the owned scheduler: a read of a ".kv" snapshot issued from that goroutine is held (when a
// partial of the same segment exists, so that the merge itself is not blocked) until the harness releases it.
type LateReads struct {
	mu   sync.Mutex
	held []*HeldRead
	// Held counts the reads that were held during the run.
	Held int
	// Seen counts what the gate saw (evidence: the gate is alive).
	Seen map[string]int
	// InsideNextMerge: the reads held so far complete while the next merge is loading its partial, that is
	// after that merge fetched the module's current store and before it merges into it.
	InsideNextMerge bool
}

func (l *LateReads) count(what string) {
	l.mu.Lock()
	if l.Seen == nil {
		l.Seen = map[string]int{}
	}
	l.Seen[what]++
	l.mu.Unlock()
}

// HeldRead is a snapshot read in flight.
type HeldRead struct {
	Name    string
	owner   *gatedStore // the module's sub-store
	release chan struct{}
	closed  chan struct{}
}

// Wrap returns the store to give to store.NewConfigMap.
func (l *LateReads) Wrap(s dstore.Store) dstore.Store { return &gatedStore{Store: s, l: l} }

// Stats returns how many reads were held and what the gate saw (a copy).
func (l *LateReads) Stats() (held int, seen map[string]int) {
	l.mu.Lock()
	defer l.mu.Unlock()
	seen = map[string]int{}
	for k, v := range l.Seen {
		seen[k] = v
	}
	return l.Held, seen
}

// Pending returns the number of reads currently held.
func (l *LateReads) Pending() int {
	l.mu.Lock()
	defer l.mu.Unlock()
	return len(l.held)
}

// Release lets the i-th held read complete and waits until its goroutine had the time to act on the result.
func (l *LateReads) Release(i int) {
	l.mu.Lock()
	if i < 0 || i >= len(l.held) {
		l.mu.Unlock()
		return
	}
	h := l.held[i]
	l.held = append(l.held[:i], l.held[i+1:]...)
	remaining := len(l.held)
	l.mu.Unlock()
	close(h.release)
	select {
	case <-h.closed: // the data was read and the reader closed: what follows is unmarshalling and using the store
	case <-time.After(2 * time.Second):
	}
	// wait until the goroutine is gone: only the reads still held may be inside the racing loader
	deadline := time.Now().Add(2 * time.Second)
	for racers() > remaining && time.Now().Before(deadline) {
		time.Sleep(100 * time.Microsecond)
	}
}

// racers counts the goroutines that are inside the racing loader of getPartialOrFullKV.
func racers() int {
	buf := make([]byte, 256<<10)
	n := runtime.Stack(buf, true)
	return strings.Count(string(buf[:n]), "orchestrator/stage.getPartialOrFullKV.func2(")
}

// ReleaseAll completes every held read (end of a case).
func (l *LateReads) ReleaseAll() {
	for l.Pending() > 0 {
		l.Release(0)
	}
}

type gatedStore struct {
	dstore.Store
	l *LateReads
}

func (g *gatedStore) SubStore(p string) (dstore.Store, error) {
	sub, err := g.Store.SubStore(p)
	if err != nil {
		return nil, err
	}
	return &gatedStore{Store: sub, l: g.l}, nil
}

// fromRacingLoader tells whether the caller is the goroutine of getPartialOrFullKV that loads the full store.
func fromRacingLoader() bool { return calledFrom("orchestrator/stage.getPartialOrFullKV.func2") }

func calledFrom(fn string) bool {
	pcs := make([]uintptr, 40)
	n := runtime.Callers(2, pcs)
	frames := runtime.CallersFrames(pcs[:n])
	for {
		f, more := frames.Next()
		if strings.Contains(f.Function, fn) {
			return true
		}
		if !more {
			return false
		}
	}
}

func (g *gatedStore) OpenObject(ctx context.Context, name string) (io.ReadCloser, error) {
	if g.l.InsideNextMerge && strings.HasSuffix(name, ".partial") && g.l.Pending() > 0 && calledFrom("orchestrator/stage.getPartialOrFullKV.func1") {
		// a merge is loading its partial: the snapshot reads of earlier merges that are still in flight complete now
		// (not the read of this very merge, which has the same end block in its name)
		for {
			idx := -1
			g.l.mu.Lock()
			for i, h := range g.l.held {
				// of the same store (the stage's other stores are merged concurrently and do not matter), not of this very merge
				if h.owner == g && (len(h.Name) < 11 || len(name) < 11 || h.Name[:11] != name[:11]) {
					idx = i
					break
				}
			}
			g.l.mu.Unlock()
			if idx < 0 {
				break
			}
			g.l.count("completed-inside-a-later-merge")
			g.l.Release(idx)
		}
		return g.Store.OpenObject(ctx, name)
	}
	if !strings.HasSuffix(name, ".kv") || !fromRacingLoader() {
		return g.Store.OpenObject(ctx, name)
	}
	g.l.count("racing-reads")
	if ok, _ := g.Store.FileExists(ctx, name); !ok {
		return g.Store.OpenObject(ctx, name)
	}
	g.l.count("racing-reads-of-existing-snapshot")
	// only when the partial of the same segment (same end block) exists: otherwise the merge waits for this read
	partial := false
	if len(name) > 11 {
		_ = g.Store.Walk(ctx, "", func(filename string) error {
			if strings.HasPrefix(filename, name[:11]) && strings.Contains(filename, ".partial") {
				partial = true
			}
			return nil
		})
	}
	if !partial {
		return g.Store.OpenObject(ctx, name)
	}
	h := &HeldRead{Name: name, owner: g, release: make(chan struct{}), closed: make(chan struct{})}
	g.l.mu.Lock()
	g.l.held = append(g.l.held, h)
	g.l.Held++
	g.l.mu.Unlock()
	select {
	case <-h.release:
	case <-time.After(5 * time.Second): // never block a merge for good (the partial turned out not to load)
		g.l.mu.Lock()
		for i, x := range g.l.held {
			if x == h {
				g.l.held = append(g.l.held[:i], g.l.held[i+1:]...)
				break
			}
		}
		g.l.mu.Unlock()
	}
	// the read was in flight when the caller's context was cancelled: it completes
	rc, err := g.Store.OpenObject(context.Background(), name)
	if err != nil {
		close(h.closed)
		return nil, err
	}
	return &closeNotify{ReadCloser: rc, ch: h.closed}, nil
}

type closeNotify struct {
	io.ReadCloser
	ch   chan struct{}
	once sync.Once
}

func (c *closeNotify) Close() error {
	err := c.ReadCloser.Close()
	c.once.Do(func() { close(c.ch) })
	return err
}
