package world

import (
	"context"
	"errors"
	"hash/fnv"
	"io"
	"strings"
	"sync"

	"github.com/streamingfast/dstore"
)

// WriteFaults makes the object store fail the first write of some cache files transiently, the way an upload
// that was streamed and then answered with a 5xx does: the body is consumed, nothing is stored, an error comes
// back. Every write of a cache file (store snapshot, cached output, index) is retried by the code under test, so
// such a fault must be invisible in what the files hold afterwards.
//
// Which files fail is a pure function of (Pick, file name), independent of the order in which jobs run.
type WriteFaults struct {
	Pick  uint64 // salt of the choice
	Every int    // a file is chosen when hash(Pick, name) % Every == 0 (<=0: none)
	Max   int    // at most that many faults per request (every retry sleeps one second)
	// Before: fail before reading the body (the other shape of a transient failure)
	Before bool

	mu       sync.Mutex
	failed   map[string]bool
	Injected int
}

// Stats returns the number of faults injected so far.
func (w *WriteFaults) Stats() int {
	w.mu.Lock()
	defer w.mu.Unlock()
	return w.Injected
}

// Wrap returns a store that injects the faults.
func (w *WriteFaults) Wrap(s dstore.Store) dstore.Store { return &flakyStore{Store: s, w: w} }

type flakyStore struct {
	dstore.Store
	w *WriteFaults
}

func (f *flakyStore) SubStore(p string) (dstore.Store, error) {
	sub, err := f.Store.SubStore(p)
	if err != nil {
		return nil, err
	}
	return &flakyStore{Store: sub, w: f.w}, nil
}

// Clone keeps the faults on the clones tier2 and the store savers make for metering.
func (f *flakyStore) Clone(ctx context.Context, opts ...dstore.Option) (dstore.Store, error) {
	c, ok := f.Store.(dstore.Clonable)
	if !ok {
		return f, nil
	}
	cl, err := c.Clone(ctx, opts...)
	if err != nil {
		return nil, err
	}
	return &flakyStore{Store: cl, w: f.w}, nil
}

var errInjectedWrite = errors.New("verif: injected transient failure of the object store (write)")

func (f *flakyStore) chosen(name string) bool {
	w := f.w
	if w.Every <= 0 {
		return false
	}
	if !(strings.HasSuffix(name, ".kv") || strings.HasSuffix(name, ".partial") || strings.HasSuffix(name, ".output") || strings.HasSuffix(name, ".index")) {
		return false
	}
	h := fnv.New64a()
	var salt [8]byte
	for i := range salt {
		salt[i] = byte(w.Pick >> (8 * i))
	}
	h.Write(salt[:])
	key := f.Store.ObjectURL(name)
	if i := strings.Index(key, "test.store"); i >= 0 {
		key = key[i:] // the cache directory of a case is a temporary one
	}
	h.Write([]byte(key))
	if h.Sum64()%uint64(w.Every) != 0 {
		return false
	}
	w.mu.Lock()
	defer w.mu.Unlock()
	if w.failed == nil {
		w.failed = map[string]bool{}
	}
	if w.failed[key] || (w.Max > 0 && w.Injected >= w.Max) {
		return false
	}
	w.failed[key] = true
	w.Injected++
	return true
}

func (f *flakyStore) WriteObject(ctx context.Context, name string, r io.Reader) error {
	if f.chosen(name) {
		if !f.w.Before {
			_, _ = io.Copy(io.Discard, r)
		}
		return errInjectedWrite
	}
	return f.Store.WriteObject(ctx, name, r)
}
