package world

import (
	"context"
	"io"
	"sync"
	"sync/atomic"

	"github.com/streamingfast/dmetering"
	"github.com/streamingfast/substreams/client"
	"github.com/streamingfast/substreams/orchestrator/work"
	pbssinternal "github.com/streamingfast/substreams/pb/sf/substreams/intern/v2"
	"github.com/streamingfast/substreams/service"
	"go.uber.org/zap"
	"google.golang.org/grpc"
	"google.golang.org/grpc/codes"
	"google.golang.org/grpc/metadata"
	"google.golang.org/grpc/status"
)

var registerOnce sync.Once

// Fault is one injected transient failure of the tier1 -> tier2 call.
type Fault struct {
	Call  int    `json:"call"`  // n-th ProcessRange call of the request (0-based)
	Kind  string `json:"kind"`  // before | header | overloaded | drop-mid | drop-mid-canceled | drop-mid-eof | drop-after-done
	After int    `json:"after"` // drop-mid: messages forwarded before the drop
}

// Remote makes Run use the real work.RemoteWorker in front of an in-process tier2 reached through a fake
// gRPC client/stream pair, with the given faults injected.
type Remote struct {
	Faults []Fault
	// Limit > 0: the in-process tier2 (one service for all the calls of the request, as in a deployment) refuses
	// a call while Limit others are in flight ("service currently overloaded"), for real
	Limit   uint64
	svcOnce sync.Once
	svc     *service.Tier2Service
	calls   atomic.Int32
	Calls   []int32 // filled after the run: number of calls made
}

type fakeClient struct {
	cfg    *Config
	remote *Remote
}

type pipeMsg struct {
	resp *pbssinternal.ProcessRangeResponse
	err  error
}

type clientStream struct {
	ctx       context.Context
	ch        chan pipeMsg
	cancel    context.CancelFunc
	headerErr error // the call failed while the stream was set up: the header never arrives
}

func (c *clientStream) Recv() (*pbssinternal.ProcessRangeResponse, error) {
	select {
	case m, ok := <-c.ch:
		if !ok {
			return nil, io.EOF
		}
		return m.resp, m.err
	case <-c.ctx.Done():
		return nil, status.FromContextError(c.ctx.Err()).Err()
	}
}
func (c *clientStream) Header() (metadata.MD, error) {
	if c.headerErr != nil {
		return nil, c.headerErr
	}
	return metadata.MD{}, nil
}
func (c *clientStream) Trailer() metadata.MD     { return metadata.MD{} }
func (c *clientStream) CloseSend() error         { c.cancel(); return nil }
func (c *clientStream) Context() context.Context { return c.ctx }
func (c *clientStream) SendMsg(any) error        { return nil }
func (c *clientStream) RecvMsg(any) error        { return nil }

type serverStream struct {
	ctx  context.Context
	send func(*pbssinternal.ProcessRangeResponse) error
}

func (s *serverStream) Send(r *pbssinternal.ProcessRangeResponse) error { return s.send(r) }
func (s *serverStream) SetHeader(metadata.MD) error                     { return nil }
func (s *serverStream) SendHeader(metadata.MD) error                    { return nil }
func (s *serverStream) SetTrailer(metadata.MD)                          {}
func (s *serverStream) Context() context.Context                        { return s.ctx }
func (s *serverStream) SendMsg(any) error                               { return nil }
func (s *serverStream) RecvMsg(any) error                               { return nil }

func (f *fakeClient) ProcessRange(ctx context.Context, in *pbssinternal.ProcessRangeRequest, opts ...grpc.CallOption) (grpc.ServerStreamingClient[pbssinternal.ProcessRangeResponse], error) {
	n := int(f.remote.calls.Add(1)) - 1
	var fault *Fault
	for i := range f.remote.Faults {
		if f.remote.Faults[i].Call == n {
			fault = &f.remote.Faults[i]
		}
	}
	if fault != nil && fault.Kind == "before" {
		return nil, status.Error(codes.Unavailable, "connection refused (injected)")
	}
	srvCtx, srvCancel := context.WithCancel(context.Background())
	cliCtx, cliCancel := context.WithCancel(ctx)
	ch := make(chan pipeMsg, 64)
	cs := &clientStream{ctx: cliCtx, ch: ch, cancel: func() { cliCancel(); srvCancel() }}
	if fault != nil && fault.Kind == "header" {
		// with real gRPC a server-streaming call returns a stream at once; an unreachable or refusing server shows up
		// when the header is awaited, and again on the first Recv
		cs.headerErr = status.Error(codes.Unavailable, "connection error: no header (injected)")
		ch <- pipeMsg{err: cs.headerErr}
		close(ch)
		return cs, nil
	}
	if fault != nil && fault.Kind == "overloaded" {
		ch <- pipeMsg{err: status.Error(codes.Unavailable, "service currently overloaded")}
		close(ch)
		return cs, nil
	}
	f.remote.svcOnce.Do(func() { f.remote.svc = service.VerifNewTier2(f.cfg.streamFactory(true), f.remote.Limit) })
	svc := f.remote.svc
	dropMid := fault != nil && (fault.Kind == "drop-mid" || fault.Kind == "drop-mid-canceled" || fault.Kind == "drop-mid-eof")
	dropErr := status.Error(codes.Unavailable, "transport is closing (injected)")
	if fault != nil && fault.Kind == "drop-mid-canceled" {
		// what tier1 receives when the tier2 side loses its caller or goes away: toGRPCError maps it to Canceled,
		// while tier1's own request context is alive
		dropErr = status.Error(codes.Canceled, "context canceled (injected: the remote end went away)")
	}
	if fault != nil && fault.Kind == "drop-mid-eof" {
		// the text grpc-go gives a stream whose connection is cut while a message is awaited
		dropErr = status.Error(codes.Unavailable, "error reading from server: EOF")
	}
	go func() {
		defer close(ch)
		defer srvCancel()
		sent := 0
		dropped := false
		ss := &serverStream{ctx: srvCtx, send: func(r *pbssinternal.ProcessRangeResponse) error {
			if dropMid && sent >= fault.After {
				if !dropped {
					dropped = true
					srvCancel() // the connection is gone: the server side sees its context cancelled
					ch <- pipeMsg{err: dropErr}
				}
				return status.Error(codes.Canceled, "client gone")
			}
			sent++
			select {
			case ch <- pipeMsg{resp: r}:
			case <-srvCtx.Done():
			}
			return nil
		}}
		err := svc.ProcessRange(in, ss)
		if dropped {
			return
		}
		if dropMid && !dropped {
			// the job sent fewer messages than planned: drop right at the end instead
			ch <- pipeMsg{err: dropErr}
			return
		}
		if fault != nil && fault.Kind == "drop-after-done" && err == nil {
			ch <- pipeMsg{err: status.Error(codes.Unavailable, "connection reset after completion (injected)")}
			return
		}
		if err != nil {
			ch <- pipeMsg{err: err}
		}
	}()
	return cs, nil
}

func (cfg *Config) remoteWorkerFactory(remote *Remote) work.WorkerFactory {
	registerOnce.Do(dmetering.RegisterNull)
	fc := &fakeClient{cfg: cfg, remote: remote}
	factory := func() (pbssinternal.SubstreamsClient, func() error, []grpc.CallOption, client.Headers, error) {
		return fc, func() error { return nil }, nil, nil, nil
	}
	return func(logger *zap.Logger) work.Worker {
		return work.NewRemoteWorker(factory, zap.NewNop())
	}
}

// ProcessRangeExported calls the exported Tier2Service.ProcessRange (validation and error mapping included) with
// the given request, on the caller's goroutine, and returns its error (a gRPC status error or nil).
func ProcessRangeExported(ctx context.Context, cfg *Config, in *pbssinternal.ProcessRangeRequest) error {
	return ProcessRangeExportedSeq(ctx, cfg, 0, in)[0]
}

// ProcessRangeExportedSeq sends the requests one after the other (never two at a time) to one tier2 service that
// admits `limit` concurrent requests (0 = no limit) and returns their errors.
func ProcessRangeExportedSeq(ctx context.Context, cfg *Config, limit uint64, ins ...*pbssinternal.ProcessRangeRequest) []error {
	registerOnce.Do(dmetering.RegisterNull)
	svc := service.VerifNewTier2(cfg.streamFactory(true), limit)
	var errs []error
	for _, in := range ins {
		ss := &serverStream{ctx: ctx, send: func(*pbssinternal.ProcessRangeResponse) error { return nil }}
		errs = append(errs, svc.ProcessRange(in, ss))
	}
	return errs
}
