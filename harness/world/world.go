// Package world runs tier1 requests in process against the real services: a
// deterministic block source, workers that execute the real tier2 on the same
// cache directory, and a collector of every response.
package world

import (
	"context"
	"errors"
	"fmt"
	"io"
	"os"
	"path/filepath"
	"runtime"
	"sort"
	"strconv"
	"strings"
	"sync"
	"sync/atomic"
	"time"

	"github.com/streamingfast/bstream"
	pbbstream "github.com/streamingfast/bstream/pb/sf/bstream/v1"
	"github.com/streamingfast/bstream/stream"
	"github.com/streamingfast/dmetering"
	"github.com/streamingfast/dstore"
	"github.com/streamingfast/substreams"
	"github.com/streamingfast/substreams/orchestrator/loop"
	"github.com/streamingfast/substreams/orchestrator/response"
	"github.com/streamingfast/substreams/orchestrator/stage"
	"github.com/streamingfast/substreams/orchestrator/work"
	pbssinternal "github.com/streamingfast/substreams/pb/sf/substreams/intern/v2"
	pbsubstreamsrpc "github.com/streamingfast/substreams/pb/sf/substreams/rpc/v2"
	pbsubstreams "github.com/streamingfast/substreams/pb/sf/substreams/v1"
	pbsubstreamstest "github.com/streamingfast/substreams/pb/sf/substreams/v1/test"
	"github.com/streamingfast/substreams/pipeline"
	"github.com/streamingfast/substreams/reqctx"
	"github.com/streamingfast/substreams/service"
	"github.com/streamingfast/substreams/service/config"
	"github.com/streamingfast/substreams/storage/store"
	"go.uber.org/zap"
	"google.golang.org/protobuf/types/known/anypb"
	"google.golang.org/protobuf/types/known/timestamppb"

	_ "verif/dslrt"
)

const BlockType = "sf.substreams.v1.test.Block"

func init() {
	// the synthetic runtime is selected through the environment variable the registry reads
	os.Setenv("SUBSTREAMS_WASM_RUNTIME", "verifdsl")
	os.Setenv("VERIF_NO_RAMPUP", "1")
	// VERIF_FSB=n runs the whole process with a chain whose first streamable block is n
	if v, err := strconv.ParseUint(os.Getenv("VERIF_FSB"), 10, 64); err == nil && v > 0 {
		bstream.GetProtocolFirstStreamableBlock = v
	}
}

// FSB is the first streamable block of this process' chain.
func FSB() uint64 { return bstream.GetProtocolFirstStreamableBlock }

// Step is one signal of the block source.
type Step struct {
	Num      uint64
	ID       string
	Parent   string
	Step     bstream.StepType
	LIBNum   uint64
	LIBID    string
	Head     bstream.BlockRef
	Junction bstream.BlockRef // for undo steps
}

// LinearChainLag returns a fork-free chain in which the blocks up to finalUpTo are new and final at once and
// the later ones arrive as new, each followed (lag blocks later) by the irreversible signal of an earlier block.
func LinearChainLag(head, finalUpTo, lag uint64) []Step {
	var out []Step
	first := bstream.GetProtocolFirstStreamableBlock
	lastFinal := finalUpTo
	for n := first; n <= head; n++ {
		id := BlockID(n)
		parent := ""
		if n > first {
			parent = BlockID(n - 1)
		}
		if n <= finalUpTo {
			out = append(out, Step{Num: n, ID: id, Parent: parent, Step: bstream.StepNewIrreversible, LIBNum: n, LIBID: id})
			continue
		}
		out = append(out, Step{Num: n, ID: id, Parent: parent, Step: bstream.StepNew, LIBNum: lastFinal, LIBID: BlockID(lastFinal)})
		if n >= lag && n-lag > lastFinal {
			for f := lastFinal + 1; f <= n-lag; f++ {
				out = append(out, Step{Num: f, ID: BlockID(f), Step: bstream.StepIrreversible, LIBNum: f, LIBID: BlockID(f), Head: bstream.NewBlockRef(id, n)})
			}
			lastFinal = n - lag
		}
	}
	return out
}

// LinearChain returns the steps of a fork-free chain [first streamable block, head]: every block new and final at once.
func LinearChain(head uint64) []Step {
	var out []Step
	for n := bstream.GetProtocolFirstStreamableBlock; n <= head; n++ {
		id := BlockID(n)
		s := Step{Num: n, ID: id, Step: bstream.StepNewIrreversible, LIBNum: n, LIBID: id}
		if n > bstream.GetProtocolFirstStreamableBlock {
			s.Parent = BlockID(n - 1)
		}
		out = append(out, s)
	}
	return out
}

// LinearChainWithout is LinearChain on a chain that skips some block numbers (a block whose number is its parent's
// plus two or more, as on chains numbered by slots); the first block and the head are never skipped.
func LinearChainWithout(head uint64, skipped []uint64) []Step {
	skip := map[uint64]bool{}
	for _, n := range skipped {
		if n > bstream.GetProtocolFirstStreamableBlock && n < head {
			skip[n] = true
		}
	}
	var out []Step
	parent := ""
	for n := bstream.GetProtocolFirstStreamableBlock; n <= head; n++ {
		if skip[n] {
			continue
		}
		id := BlockID(n)
		out = append(out, Step{Num: n, ID: id, Parent: parent, Step: bstream.StepNewIrreversible, LIBNum: n, LIBID: id})
		parent = id
	}
	return out
}

func BlockID(n uint64) string { return fmt.Sprintf("b%d", n) }

type obj struct {
	cursor   *bstream.Cursor
	step     bstream.StepType
	junction bstream.BlockRef
}

func (o *obj) Cursor() *bstream.Cursor              { return o.cursor }
func (o *obj) Step() bstream.StepType               { return o.step }
func (o *obj) FinalBlockHeight() uint64             { return o.cursor.LIB.Num() }
func (o *obj) ReorgJunctionBlock() bstream.BlockRef { return o.junction }

func (s Step) block() (*pbbstream.Block, *obj) {
	payload, err := anypb.New(&pbsubstreamstest.Block{Id: s.ID, Number: s.Num})
	if err != nil {
		panic(err)
	}
	blk := &pbbstream.Block{
		Id: s.ID, Number: s.Num, ParentId: s.Parent, LibNum: s.LIBNum, Payload: payload,
		Timestamp: timestamppb.New(time.Unix(1_600_000_000+int64(s.Num), 0)), // never the wall clock
	}
	ref := bstream.NewBlockRef(s.ID, s.Num)
	head := s.Head
	if head == nil {
		head = ref
	}
	o := &obj{step: s.Step, junction: s.Junction, cursor: &bstream.Cursor{Step: s.Step, Block: ref, LIB: bstream.NewBlockRef(s.LIBID, s.LIBNum), HeadBlock: head}}
	return blk, o
}

// Config of one run.
type Config struct {
	Dir     string // cache directory (kept between runs of one case to model earlier requests)
	Seg     uint64
	Workers int
	Final   uint64 // recent final block known to tier1 (0 = unknown)
	Steps   []Step // what the block source holds; tier2 reads the final linear prefix of it
	// JobOrder steers the completion order of segment jobs: finished jobs are parked and released
	// one at a time, the parked job with the smallest rank first (rank = JobOrder[jobSeq % len]).
	JobOrder []int
	// OnBlock is called after every block processed by the tier1 pipeline (linear phase).
	OnBlock func(step Step, stores store.Map)
	// Tier2Hook, when set, may fail a job before it runs (fault injection).
	Tier2Hook func(unit stage.Unit, attempt int) error
	Timeout   time.Duration // per request (default 20 s)
	// MaxWindows: a request that keeps making progress is given that many windows of Timeout (default 15)
	MaxWindows int
	// Remote, when set, replaces the harness' workers by the real RemoteWorker over a fake gRPC transport.
	Remote *Remote
	// AfterJob is called when a segment job has finished successfully, before the scheduler hears of it.
	AfterJob func(unit stage.Unit)
	// LateReads, when set, holds the squasher's racing reads of full-store snapshots (owned scheduler only)
	LateReads *LateReads
	// WriteFaults, when set, makes the first write of some cache files fail transiently (tier1 and tier2)
	WriteFaults *WriteFaults
	// ticks counts signs of progress (a block handed to a pipeline, a job started or finished, a response): the
	// watchdog tells a slow request from one that is stuck
	ticks *int64
}

type Request struct {
	Prod            bool
	Start           int64
	Stop            uint64
	Output          string
	Cursor          string
	FinalBlocksOnly bool
}

// JobRecord is one tier2 job as seen by the harness' workers.
type JobRecord struct {
	Stage, Segment int
	Start, End     int // sequence numbers of start and completion
	Err            string
}

// ErrHung: the request did not return within the time limit.
var ErrHung = errors.New("harness: request did not terminate")

// stackShape reduces a goroutine dump to where the goroutines inside the repository's code are: function names of
// their frames, without goroutine numbers, arguments and addresses.
func stackShape(all string) string {
	var out []string
	for _, g := range strings.Split(all, "\n\n") {
		if !strings.Contains(g, "streamingfast/substreams/") || strings.Contains(g, "world.Run(") {
			continue
		}
		var fns []string
		for i, line := range strings.Split(g, "\n") {
			if i == 0 || strings.HasPrefix(line, "\t") || strings.HasPrefix(line, "created by") {
				continue
			}
			if k := strings.LastIndex(line, "("); k > 0 {
				line = line[:k]
			}
			fns = append(fns, line)
		}
		out = append(out, strings.Join(fns, "<"))
	}
	sort.Strings(out)
	return strings.Join(out, "\n")
}

// interestingStacks keeps the goroutines that are inside the repository's code.
func interestingStacks(all string) string {
	var out []string
	for _, g := range strings.Split(all, "\n\n") {
		if strings.Contains(g, "streamingfast/substreams/") && !strings.Contains(g, "world.Run(") {
			lines := strings.Split(g, "\n")
			if len(lines) > 14 {
				lines = lines[:14]
			}
			out = append(out, strings.Join(lines, "\n"))
		}
	}
	if len(out) > 12 {
		out = out[:12]
	}
	return strings.Join(out, "\n\n")
}

type Result struct {
	Hung      bool
	Responses []*pbsubstreamsrpc.Response
	Err       error
	Jobs      []JobRecord
	Session   *pbsubstreamsrpc.SessionInit
	AfterErr  int // responses received after TestBlocks returned
}

// Data is one delivered block.
type Data struct {
	Num     uint64
	ID      string
	Payload []byte
	Cursor  string
	Final   uint64
	Debug   *pbsubstreamsrpc.BlockScopedData
}

// Messages projects the responses to data and undo messages, in order.
type Message struct {
	Data *Data
	Undo *pbsubstreamsrpc.BlockUndoSignal
}

func (r *Result) Messages() (out []Message) {
	for _, resp := range r.Responses {
		switch m := resp.Message.(type) {
		case *pbsubstreamsrpc.Response_BlockScopedData:
			d := m.BlockScopedData
			var payload []byte
			if d.Output != nil && d.Output.MapOutput != nil {
				payload = d.Output.MapOutput.Value
			}
			out = append(out, Message{Data: &Data{Num: d.Clock.Number, ID: d.Clock.Id, Payload: payload, Cursor: d.Cursor, Final: d.FinalBlockHeight, Debug: d}})
		case *pbsubstreamsrpc.Response_BlockUndoSignal:
			out = append(out, Message{Undo: m.BlockUndoSignal})
		}
	}
	return
}

func (r *Result) DataMessages() (out []*Data) {
	for _, m := range r.Messages() {
		if m.Data != nil {
			out = append(out, m.Data)
		}
	}
	return
}

type collector struct {
	mu        sync.Mutex
	responses []*pbsubstreamsrpc.Response
	closed    bool
	after     int
}

func (c *collector) collect(resp substreams.ResponseFromAnyTier) error {
	c.mu.Lock()
	defer c.mu.Unlock()
	if r, ok := resp.(*pbsubstreamsrpc.Response); ok {
		if c.closed {
			if _, isData := r.Message.(*pbsubstreamsrpc.Response_BlockScopedData); isData {
				c.after++
			}
			return nil
		}
		c.responses = append(c.responses, r)
	}
	return nil
}

// source is the block source handed to tier1 and tier2.
type source struct {
	steps     []Step
	h         bstream.Handler
	start     int64
	stop      uint64
	cursor    string
	cfg       *Config
	tier2     bool
	pipe      *pipeline.Pipeline
	finalOnly bool
}

func (s *source) Run(ctx context.Context) error {
	for _, st := range s.steps {
		if ctx.Err() != nil {
			return ctx.Err()
		}
		if int64(st.Num) < s.start {
			continue
		}
		if s.tier2 || s.finalOnly {
			// tier2 (and final-blocks-only requests) read final blocks only
			if st.Step != bstream.StepNewIrreversible && st.Step != bstream.StepIrreversible {
				continue
			}
		}
		blk, o := st.block()
		s.cfg.tick()
		err := s.h.ProcessBlock(blk, o)
		if err != nil {
			if errors.Is(err, io.EOF) {
				return io.EOF
			}
			return fmt.Errorf("process block %d: %w", st.Num, err)
		}
		if !s.tier2 && s.cfg.OnBlock != nil && s.pipe != nil {
			s.cfg.OnBlock(st, s.pipe.GetStoreMap())
		}
	}
	return io.EOF
}

func (cfg *Config) tick() {
	if cfg.ticks != nil {
		atomic.AddInt64(cfg.ticks, 1)
	}
}

func (cfg *Config) streamFactory(tier2 bool) service.StreamFactoryFunc {
	return func(ctx context.Context, h bstream.Handler, startBlockNum int64, stopBlockNum uint64, cursor string, finalBlocksOnly bool, cursorIsTarget bool, logger *zap.Logger, extraOpts ...stream.Option) (service.Streamable, error) {
		src := &source{steps: cfg.Steps, h: h, start: startBlockNum, stop: stopBlockNum, cursor: cursor, cfg: cfg, tier2: tier2, finalOnly: finalBlocksOnly}
		switch v := h.(type) {
		case *pipeline.Pipeline:
			src.pipe = v
		case *service.LiveBackFiller:
			if p, ok := v.NextHandler.(*pipeline.Pipeline); ok {
				src.pipe = p
			}
		}
		if tier2 {
			// tier2 reads merged (final) blocks: the steps that are final in this world
			var finals []Step
			for _, st := range cfg.Steps {
				if st.Step == bstream.StepNewIrreversible {
					finals = append(finals, st)
				} else if st.Step == bstream.StepIrreversible {
					f := st
					f.Step = bstream.StepNewIrreversible // tier2 reads merged blocks: final ones, delivered as new+irreversible
					f.Head = nil
					finals = append(finals, f)
				}
			}
			sort.SliceStable(finals, func(i, j int) bool { return finals[i].Num < finals[j].Num })
			src.steps = finals
		}
		return src, nil
	}
}

// worker runs segment jobs on the real tier2, in process.
type worker struct {
	id  int
	w   *workers
	cfg *Config
}

type workers struct {
	mu      sync.Mutex
	cfg     *Config
	seq     int
	jobs    []JobRecord
	parked  []*parkedJob
	running int
	jobSeq  int
	wake    chan struct{}
}

type parkedJob struct {
	rank    int
	release chan struct{}
}

func (w *worker) ID() string { return fmt.Sprintf("w%d", w.id) }

func (w *worker) Work(ctx context.Context, unit stage.Unit, startBlock uint64, moduleNames []string, upstream *response.Stream) loop.Cmd {
	cfg := w.cfg
	ctx = reqctx.WithTier2RequestParameters(ctx, reqctx.Tier2RequestParameters{
		BlockType:            BlockType,
		StateBundleSize:      cfg.Seg,
		StateStoreURL:        filepath.Join(cfg.Dir, "test.store"),
		StateStoreDefaultTag: "tag",
		MergedBlockStoreURL:  filepath.Join(cfg.Dir, "merged-blocks"),
		MeteringConfig:       "null://",
		FirstStreamableBlock: bstream.GetProtocolFirstStreamableBlock,
	})
	request := work.NewRequest(ctx, reqctx.Details(ctx), unit.Stage, startBlock)
	ws := w.w
	ws.mu.Lock()
	rec := len(ws.jobs)
	ws.jobs = append(ws.jobs, JobRecord{Stage: unit.Stage, Segment: unit.Segment, Start: ws.seq, End: -1})
	ws.seq++
	ws.cfg.tick()
	ws.running++
	mySeq := ws.jobSeq
	ws.jobSeq++
	ws.mu.Unlock()

	return func() loop.Msg {
		var err error
		if cfg.Tier2Hook != nil {
			err = cfg.Tier2Hook(unit, 0)
		}
		if err == nil {
			err = RunTier2(ctx, cfg, request)
		}
		if err == nil && cfg.AfterJob != nil {
			cfg.AfterJob(unit)
		}
		ws.finish(mySeq)
		ws.mu.Lock()
		ws.jobs[rec].End = ws.seq
		ws.seq++
		ws.cfg.tick()
		if err != nil {
			ws.jobs[rec].Err = err.Error()
		}
		ws.mu.Unlock()
		if err != nil {
			return work.MsgJobFailed{Unit: unit, Error: fmt.Errorf("processing tier2 request: %w", err)}
		}
		return work.MsgJobSucceeded{Unit: unit, Worker: w}
	}
}

// finish parks a finished job until it is its turn: when every started job is parked (or after a
// short quiet period) the parked job with the smallest rank is released.
func (ws *workers) finish(jobSeq int) {
	cfg := ws.cfg
	if len(cfg.JobOrder) == 0 {
		ws.mu.Lock()
		ws.running--
		ws.mu.Unlock()
		return
	}
	pj := &parkedJob{rank: cfg.JobOrder[jobSeq%len(cfg.JobOrder)], release: make(chan struct{})}
	ws.mu.Lock()
	ws.parked = append(ws.parked, pj)
	ws.mu.Unlock()
	ws.kick()
	select {
	case <-pj.release:
	case <-time.After(2 * time.Second): // never block a request for good
		ws.mu.Lock()
		for i, p := range ws.parked {
			if p == pj {
				ws.parked = append(ws.parked[:i], ws.parked[i+1:]...)
				ws.running--
				break
			}
		}
		ws.mu.Unlock()
	}
}

func (ws *workers) kick() {
	go func() {
		// let other jobs that are about to finish park too
		deadline := time.Now().Add(15 * time.Millisecond)
		for time.Now().Before(deadline) {
			ws.mu.Lock()
			all := len(ws.parked) == ws.running
			ws.mu.Unlock()
			if all {
				break
			}
			time.Sleep(time.Millisecond)
		}
		ws.mu.Lock()
		defer ws.mu.Unlock()
		if len(ws.parked) == 0 {
			return
		}
		sort.SliceStable(ws.parked, func(i, j int) bool { return ws.parked[i].rank < ws.parked[j].rank })
		pj := ws.parked[0]
		ws.parked = ws.parked[1:]
		ws.running--
		close(pj.release)
	}()
}

// RunTier2 executes one segment job on the real tier2 service.
func RunTier2(ctx context.Context, cfg *Config, request *pbssinternal.ProcessRangeRequest) error {
	svc := service.TestNewServiceTier2(false, cfg.streamFactory(true))
	return svc.TestProcessRange(ctx, request, func(substreams.ResponseFromAnyTier) error { return nil })
}

// Tier2Request builds the request a tier1 would send for (stage, segment).
func Tier2Request(cfg *Config, mods *pbsubstreams.Modules, output string, stageIdx int, segment uint64) *pbssinternal.ProcessRangeRequest {
	return &pbssinternal.ProcessRangeRequest{
		Modules: mods, OutputModule: output, Stage: uint32(stageIdx), MeteringConfig: "null://",
		MergedBlocksStore: filepath.Join(cfg.Dir, "merged-blocks"), StateStore: filepath.Join(cfg.Dir, "test.store"),
		SegmentSize: cfg.Seg, SegmentNumber: segment, StateStoreDefaultTag: "tag", BlockType: BlockType,
		FirstStreamableBlock: bstream.GetProtocolFirstStreamableBlock,
	}
}

// BaseContext is the context both tiers need.
func BaseContext(ctx context.Context, cfg *Config) context.Context {
	if os.Getenv("VERIF_LOG") != "" {
		l, _ := zap.NewDevelopment() // development aid: the scheduler's own log
		ctx = reqctx.WithLogger(ctx, l)
	} else {
		ctx = reqctx.WithLogger(ctx, zap.NewNop())
	}
	ctx = dmetering.WithBytesMeter(ctx)
	ctx = reqctx.WithTier2RequestParameters(ctx, reqctx.Tier2RequestParameters{
		BlockType: BlockType, StateBundleSize: cfg.Seg, StateStoreURL: filepath.Join(cfg.Dir, "test.store"),
		StateStoreDefaultTag: "tag", MergedBlockStoreURL: filepath.Join(cfg.Dir, "merged-blocks"), MeteringConfig: "null://",
		FirstStreamableBlock: bstream.GetProtocolFirstStreamableBlock,
	})
	return ctx
}

// Run executes one tier1 request.
func Run(mods *pbsubstreams.Modules, req Request, cfg Config) *Result {
	cfg.ticks = new(int64)
	ctx, cancel := context.WithCancel(context.Background())
	defer cancel()
	ctx = BaseContext(ctx, &cfg)

	base, err := dstore.NewStore(filepath.Join(cfg.Dir, "test.store"), "zst", "zstd", true)
	if err != nil {
		return &Result{Err: fmt.Errorf("harness: %w", err)}
	}
	if cfg.WriteFaults != nil {
		base = cfg.WriteFaults.Wrap(base)
		service.VerifSetStateStoreWrapper(cfg.WriteFaults.Wrap)
		defer service.VerifSetStateStoreWrapper(nil)
	}
	ws := &workers{cfg: &cfg}
	nextWorker := 0
	rc := config.RuntimeConfig{
		SegmentSize:                cfg.Seg,
		DefaultParallelSubrequests: uint64(cfg.Workers),
		BaseObjectStore:            base,
		DefaultCacheTag:            "tag",
		MaxJobsAhead:               10,
		WorkerFactory: func(*zap.Logger) work.Worker {
			nextWorker++
			return &worker{id: nextWorker, w: ws, cfg: &cfg}
		},
	}
	if cfg.Remote != nil {
		rc.WorkerFactory = cfg.remoteWorkerFactory(cfg.Remote)
	}
	svc := service.TestNewService(rc, cfg.Final, cfg.streamFactory(false))
	request := &pbsubstreamsrpc.Request{
		StartBlockNum: req.Start, StopBlockNum: req.Stop, StartCursor: req.Cursor, Modules: mods,
		OutputModule: req.Output, ProductionMode: req.Prod, FinalBlocksOnly: req.FinalBlocksOnly,
	}
	col := &collector{}
	res := &Result{}
	done := make(chan error, 1)
	go func() {
		defer func() {
			if r := recover(); r != nil {
				buf := make([]byte, 8192)
				buf = buf[:runtime.Stack(buf, false)]
				done <- fmt.Errorf("PANIC in tier1: %v\n%s", r, buf)
			}
		}()
		done <- svc.TestBlocks(ctx, false, request, func(r substreams.ResponseFromAnyTier) error {
			if rr, ok := r.(*pbsubstreamsrpc.Response); ok {
				if _, isData := rr.Message.(*pbsubstreamsrpc.Response_BlockScopedData); isData {
					cfg.tick() // the periodic progress messages are no sign of progress
				}
			}
			return col.collect(r)
		})
	}()
	limit := cfg.Timeout
	if limit == 0 {
		limit = 20 * time.Second
	}
	// A request is stuck when a whole window of `limit` passes without any sign of progress; a request that is
	// merely slow (loaded machine) keeps ticking and is given up to 15 windows.
	finished := false
	last := atomic.LoadInt64(cfg.ticks)
	maxWindows := cfg.MaxWindows
	if maxWindows <= 0 {
		maxWindows = 15
	}
	// A window without ticks is not yet a verdict on a machine that is overloaded (goroutines of the request sitting
	// in a write or waiting for a processor): the request is stuck when, in addition, the goroutines that are inside
	// the repository's code are at the same places at the end of the next tickless window (a deadlock or a spinning
	// loop looks the same twice; work that creeps forward does not).
	quietShape := ""
	for window := 0; window < maxWindows && !finished; window++ {
		select {
		case res.Err = <-done:
			finished = true
		case <-time.After(limit):
			now := atomic.LoadInt64(cfg.ticks)
			if now != last && window < maxWindows-1 {
				last = now
				quietShape = ""
				continue
			}
			buf := make([]byte, 1<<20)
			buf = buf[:runtime.Stack(buf, true)]
			if shape := stackShape(string(buf)); window < maxWindows-1 && shape != quietShape {
				quietShape = shape // first tickless window, or the goroutines moved since the last one
				continue
			}
			res.Hung = true
			res.Err = fmt.Errorf("%w after %s without progress and with its goroutines where they were a window earlier (%d windows)\n%s", ErrHung, limit, window+1, interestingStacks(string(buf)))
			cancel()
			select {
			case <-done:
			case <-time.After(2 * time.Second):
			}
			finished = true
		}
	}
	col.mu.Lock()
	col.closed = true
	res.Responses = col.responses
	col.mu.Unlock()
	cancel()
	time.Sleep(0)
	col.mu.Lock()
	res.AfterErr = col.after
	col.mu.Unlock()
	ws.mu.Lock()
	res.Jobs = append(res.Jobs, ws.jobs...)
	ws.mu.Unlock()
	for _, r := range res.Responses {
		if s, ok := r.Message.(*pbsubstreamsrpc.Response_Session); ok {
			res.Session = s.Session
		}
	}
	return res
}
