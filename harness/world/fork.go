package world

import (
	"fmt"

	"github.com/streamingfast/bstream"
	"github.com/streamingfast/bstream/forkable"
	pbbstream "github.com/streamingfast/bstream/pb/sf/bstream/v1"
	"go.uber.org/zap"
	"google.golang.org/protobuf/types/known/timestamppb"
)

// ForkBlock is one block of a fork tree as it arrives from the network.
type ForkBlock struct {
	Num    uint64 `json:"num"`
	ID     string `json:"id"`
	Parent string `json:"parent"`
	LibNum uint64 `json:"lib"` // number of the last irreversible block as seen by this block (an ancestor of it)
}

// ForkSteps feeds the blocks, in arrival order, through the real fork resolver (bstream/forkable) and
// returns the signals it emits: new, undo, irreversible, stalled, with the library's own cursors and
// junction blocks. The first block must be the initial (inclusive) LIB.
func ForkSteps(blocks []ForkBlock) (steps []Step, err error) {
	if len(blocks) == 0 {
		return nil, nil
	}
	lib := bstream.NewBlockRef(blocks[0].ID, blocks[0].Num)
	h := bstream.HandlerFunc(func(blk *pbbstream.Block, obj interface{}) error {
		fo := obj.(*forkable.ForkableObject)
		cur := fo.Cursor()
		st := Step{Num: blk.Number, ID: blk.Id, Parent: blk.ParentId, Step: fo.Step(), LIBNum: cur.LIB.Num(), LIBID: cur.LIB.ID(), Head: cur.HeadBlock, Junction: fo.ReorgJunctionBlock()}
		steps = append(steps, st)
		return nil
	})
	f := forkable.New(h, forkable.HoldBlocksUntilLIB(), forkable.WithWarnOnUnlinkableBlocks(100), forkable.WithInclusiveLIB(lib), forkable.WithLogger(zap.NewNop()))
	for _, b := range blocks {
		blk := &pbbstream.Block{Id: b.ID, Number: b.Num, ParentId: b.Parent, LibNum: b.LibNum, Timestamp: timestamppb.Now()}
		if err := f.ProcessBlock(blk, nil); err != nil {
			return steps, fmt.Errorf("forkable rejected block %s: %w", b.ID, err)
		}
	}
	return steps, nil
}
