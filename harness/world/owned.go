package world

import (
	"context"
	"fmt"
	"path/filepath"
	"reflect"
	"runtime"
	"strings"

	"github.com/streamingfast/bstream"
	"github.com/streamingfast/dstore"
	"github.com/streamingfast/substreams"
	"github.com/streamingfast/substreams/metrics"
	orchestratorExecout "github.com/streamingfast/substreams/orchestrator/execout"
	"github.com/streamingfast/substreams/orchestrator/loop"
	"github.com/streamingfast/substreams/orchestrator/plan"
	"github.com/streamingfast/substreams/orchestrator/response"
	"github.com/streamingfast/substreams/orchestrator/scheduler"
	"github.com/streamingfast/substreams/orchestrator/stage"
	"github.com/streamingfast/substreams/orchestrator/work"
	pbsubstreamsrpc "github.com/streamingfast/substreams/pb/sf/substreams/rpc/v2"
	pbsubstreams "github.com/streamingfast/substreams/pb/sf/substreams/v1"
	"github.com/streamingfast/substreams/pipeline"
	"github.com/streamingfast/substreams/pipeline/exec"
	"github.com/streamingfast/substreams/reqctx"
	"github.com/streamingfast/substreams/storage/execout"
	"github.com/streamingfast/substreams/storage/store"
	"go.uber.org/zap"
)

// Owned is a scheduler assembled exactly as orchestrator.BuildParallelProcessor assembles it, but driven by
// the harness: the harness decides which pending command completes next and feeds its message to the real
// Scheduler.Update.
type Owned struct {
	Ctx          context.Context
	Cancel       context.CancelFunc
	Sched        *scheduler.Scheduler
	Plan         *plan.RequestPlan
	Graph        *exec.Graph
	Details      *reqctx.RequestDetails
	StoreConfigs store.ConfigMap
	ExecOut      *execout.Configs
	Responses    []*pbsubstreamsrpc.Response
	JobStarts    []JobStart
	cfg          *Config
}

// JobStart records a segment job at the moment the harness lets it run.
type JobStart struct {
	Unit       stage.Unit // as given to the worker (graph stage index)
	StartBlock uint64
}

// PendingCmd is a command waiting to be executed, with the name of the function that built it.
type PendingCmd struct {
	Cmd  loop.Cmd
	Kind string // short name of the closure: Batch, CmdScheduleNextJob, CmdTryMerge, Work, CmdDownloadCurrentSegment, ...
}

func cmdKind(c loop.Cmd) string {
	name := runtime.FuncForPC(reflect.ValueOf(c).Pointer()).Name()
	name = strings.TrimSuffix(name, ".func1")
	for _, suffix := range []string{".func1", ".func2", ".func3"} {
		name = strings.TrimSuffix(name, suffix)
	}
	if i := strings.LastIndex(name, "."); i >= 0 {
		name = name[i+1:]
	}
	return name
}

type ownedWorker struct {
	o  *Owned
	id int
}

func (w *ownedWorker) ID() string { return fmt.Sprintf("ow%d", w.id) }

func (w *ownedWorker) Work(ctx context.Context, unit stage.Unit, startBlock uint64, moduleNames []string, upstream *response.Stream) loop.Cmd {
	request := work.NewRequest(ctx, reqctx.Details(ctx), unit.Stage, startBlock)
	return func() loop.Msg {
		w.o.JobStarts = append(w.o.JobStarts, JobStart{Unit: unit, StartBlock: startBlock})
		if err := RunTier2(ctx, w.o.cfg, request); err != nil {
			return work.MsgJobFailed{Unit: unit, Error: fmt.Errorf("processing tier2 request: %w", err)}
		}
		return work.MsgJobSucceeded{Unit: unit, Worker: w}
	}
}

// BuildOwned mirrors Tier1Service.blocks up to the parallel processing and orchestrator.BuildParallelProcessor.
// It returns nil (no error) when the request needs no parallel processing.
func BuildOwned(mods *pbsubstreams.Modules, req Request, cfg *Config) (*Owned, loop.Cmd, error) {
	ctx, cancel := context.WithCancel(context.Background())
	ctx = BaseContext(ctx, cfg)
	o := &Owned{cfg: cfg, Cancel: cancel}
	request := &pbsubstreamsrpc.Request{StartBlockNum: req.Start, StopBlockNum: req.Stop, Modules: mods, OutputModule: req.Output, ProductionMode: req.Prod}
	execGraph, err := exec.NewOutputModuleGraph(request.OutputModule, request.ProductionMode, request.Modules, bstream.GetProtocolFirstStreamableBlock)
	if err != nil {
		cancel()
		return nil, nil, err
	}
	final := func() (uint64, error) {
		if cfg.Final != 0 {
			return cfg.Final, nil
		}
		return 0, fmt.Errorf("no live feed")
	}
	details, _, err := pipeline.BuildRequestDetails(ctx, request, final, nil, func() (uint64, error) { return 0, fmt.Errorf("no head") }, cfg.Seg)
	if err != nil {
		cancel()
		return nil, nil, err
	}
	details.MaxParallelJobs = uint64(cfg.Workers)
	ctx = reqctx.WithRequest(ctx, details)
	ctx = reqctx.WithReqStats(ctx, metrics.NewReqStats(&metrics.Config{OutputModule: req.Output}, zap.NewNop()))
	base, err := dstore.NewStore(filepath.Join(cfg.Dir, "test.store"), "zst", "zstd", true)
	if err != nil {
		cancel()
		return nil, nil, err
	}
	cacheStore, err := base.SubStore("tag")
	if err != nil {
		cancel()
		return nil, nil, err
	}
	execOutputConfigs, err := execout.NewConfigs(cacheStore, execGraph.UsedModules(), execGraph.ModuleHashes(), cfg.Seg, bstream.GetProtocolFirstStreamableBlock, zap.NewNop())
	if err != nil {
		cancel()
		return nil, nil, err
	}
	storesBase := cacheStore
	if cfg.LateReads != nil {
		storesBase = cfg.LateReads.Wrap(cacheStore) // the squasher's snapshot reads become schedulable (lateread.go)
	}
	storeConfigs, err := store.NewConfigMap(storesBase, execGraph.Stores(), execGraph.ModuleHashes(), bstream.GetProtocolFirstStreamableBlock)
	if err != nil {
		cancel()
		return nil, nil, err
	}
	scheduleStores := execGraph.StagedUsedModules()[0].LastLayer().IsStoreLayer()
	var lowestStores uint64
	if scheduleStores {
		lowestStores = *execGraph.LowestStoresInitBlock()
	}
	reqPlan, err := plan.BuildTier1RequestPlan(details.ProductionMode, cfg.Seg, execGraph.LowestInitBlock(), lowestStores, details.ResolvedStartBlockNum, details.LinearHandoffBlockNum, details.StopBlockNum, scheduleStores)
	if err != nil {
		cancel()
		return nil, nil, err
	}
	o.Ctx, o.Plan, o.Graph, o.Details, o.StoreConfigs, o.ExecOut = ctx, reqPlan, execGraph, details, storeConfigs, execOutputConfigs
	if !reqPlan.RequiresParallelProcessing() {
		return o, nil, nil
	}

	respFunc := func(resp substreams.ResponseFromAnyTier) error {
		if r, ok := resp.(*pbsubstreamsrpc.Response); ok {
			o.Responses = append(o.Responses, r)
		}
		return nil
	}
	// --- orchestrator.BuildParallelProcessor
	stream := response.New(respFunc)
	sched := scheduler.New(ctx, stream)
	stages := stage.NewStages(ctx, execGraph, reqPlan, storeConfigs)
	sched.Stages = stages
	if reqPlan.ReadExecOut != nil {
		requestedModule := execGraph.OutputModule()
		if requestedModule.GetKindMap() != nil {
			initialBlock := execGraph.ModulesInitBlocks()[requestedModule.Name]
			walker := execOutputConfigs.NewFileWalker(requestedModule.Name, reqPlan.ReadOutSegmenter(initialBlock))
			sched.ExecOutWalker = orchestratorExecout.NewWalker(ctx, requestedModule, walker, reqPlan.ReadExecOut, stream)
		}
	}
	if reqPlan.BuildStores != nil {
		err = stages.FetchStoresState(ctx, reqPlan.StoresSegmenter(), storeConfigs, execOutputConfigs)
	} else {
		err = stages.FetchStoresState(ctx, reqPlan.WriteOutSegmenter(), storeConfigs, execOutputConfigs)
	}
	if err != nil {
		cancel()
		return nil, nil, fmt.Errorf("fetch stores storage state: %w", err)
	}
	n := 0
	sched.WorkerPool = work.NewWorkerPool(ctx, cfg.Workers, func(*zap.Logger) work.Worker {
		n++
		return &ownedWorker{o: o, id: n}
	})
	o.Sched = sched
	return o, sched.Init(), nil
}

// Kind returns the classification of a command.
func Kind(c loop.Cmd) string { return cmdKind(c) }

// DataMessages projects the responses streamed by the walker.
func (o *Owned) DataMessages() []*Data {
	r := &Result{Responses: o.Responses}
	return r.DataMessages()
}
