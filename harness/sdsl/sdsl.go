// Package sdsl is the store-operation DSL shared by the store-level and the
// end-to-end checks: kinds (policy x value type), operations, generators, the
// application of an operation through the real host interface (wasm.Call.Do*)
// and an independent reference model.
package sdsl

import (
	"bytes"
	"encoding/json"
	"fmt"
	"math/big"
	"sort"
	"strconv"
	"strings"

	pbsubstreams "github.com/streamingfast/substreams/pb/sf/substreams/v1"
	"github.com/streamingfast/substreams/wasm"
)

// Bin is a byte string that survives JSON exactly (encoded as a Go-quoted ASCII string).
type Bin string

func (b Bin) MarshalJSON() ([]byte, error) {
	return json.Marshal(strconv.QuoteToASCII(string(b)))
}

func (b *Bin) UnmarshalJSON(in []byte) error {
	var q string
	if err := json.Unmarshal(in, &q); err != nil {
		return err
	}
	s, err := strconv.Unquote(q)
	if err != nil {
		return err
	}
	*b = Bin(s)
	return nil
}

// Kind is one (update policy, value type) combination the host interface admits.
type Kind struct {
	Policy string `json:"policy"` // set, set_if_not_exists, append, add, min, max, set_sum
	VType  string `json:"vtype"`
}

func (k Kind) String() string { return k.Policy + "/" + k.VType }

// AllKinds enumerates the combinations accepted by the validators of wasm/call.go.
func AllKinds() []Kind {
	var out []Kind
	for _, p := range []string{"set", "set_if_not_exists", "append"} {
		for _, v := range []string{"string", "bytes", "proto:sf.test.Value"} {
			out = append(out, Kind{p, v})
		}
	}
	for _, p := range []string{"add", "min", "max"} {
		for _, v := range []string{"int64", "float64", "bigint", "bigdecimal", "bigfloat"} {
			out = append(out, Kind{p, v})
		}
	}
	for _, v := range []string{"int64", "float64", "bigint", "bigdecimal"} {
		out = append(out, Kind{"set_sum", v})
	}
	return out
}

func (k Kind) PB() pbsubstreams.Module_KindStore_UpdatePolicy {
	switch k.Policy {
	case "set":
		return pbsubstreams.Module_KindStore_UPDATE_POLICY_SET
	case "set_if_not_exists":
		return pbsubstreams.Module_KindStore_UPDATE_POLICY_SET_IF_NOT_EXISTS
	case "append":
		return pbsubstreams.Module_KindStore_UPDATE_POLICY_APPEND
	case "add":
		return pbsubstreams.Module_KindStore_UPDATE_POLICY_ADD
	case "min":
		return pbsubstreams.Module_KindStore_UPDATE_POLICY_MIN
	case "max":
		return pbsubstreams.Module_KindStore_UPDATE_POLICY_MAX
	case "set_sum":
		return pbsubstreams.Module_KindStore_UPDATE_POLICY_SET_SUM
	}
	panic("unknown policy " + k.Policy)
}

// Numeric says whether values are numbers (compared by value) or bytes.
func (k Kind) Numeric() bool {
	switch k.Policy {
	case "add", "min", "max", "set_sum":
		return true
	}
	return false
}

// Op is one store operation of a block.
type Op struct {
	Ord uint64 `json:"ord"`
	Key Bin    `json:"key"`           // key, or prefix when Del
	Val Bin    `json:"val,omitempty"` // bytes kinds: raw bytes; numeric kinds: decimal text
	Sum bool   `json:"sum,omitempty"` // set_sum only: "sum:" form (else "set:")
	Del bool   `json:"del,omitempty"` // delete_prefix
}

func (o Op) String() string {
	if o.Del {
		return fmt.Sprintf("@%d delete_prefix(%q)", o.Ord, string(o.Key))
	}
	if o.Sum {
		return fmt.Sprintf("@%d %q sum:%s", o.Ord, string(o.Key), string(o.Val))
	}
	return fmt.Sprintf("@%d %q <- %q", o.Ord, string(o.Key), string(o.Val))
}

// Apply issues op on the call's output store through the host interface.
func Apply(call *wasm.Call, k Kind, o Op) {
	key, val := string(o.Key), string(o.Val)
	if o.Del {
		call.DoDeletePrefix(o.Ord, key)
		return
	}
	switch k.Policy {
	case "set":
		call.DoSet(o.Ord, key, []byte(val))
	case "set_if_not_exists":
		call.DoSetIfNotExists(o.Ord, key, []byte(val))
	case "append":
		call.DoAppend(o.Ord, key, []byte(val))
	case "add":
		switch k.VType {
		case "int64":
			call.DoAddInt64(o.Ord, key, mustInt(val))
		case "float64":
			call.DoAddFloat64(o.Ord, key, mustFloat(val))
		case "bigint":
			call.DoAddBigInt(o.Ord, key, val)
		default:
			call.DoAddBigDecimal(o.Ord, key, val)
		}
	case "min":
		switch k.VType {
		case "int64":
			call.DoSetMinInt64(o.Ord, key, mustInt(val))
		case "float64":
			call.DoSetMinFloat64(o.Ord, key, mustFloat(val))
		case "bigint":
			call.DoSetMinBigInt(o.Ord, key, val)
		default:
			call.DoSetMinBigDecimal(o.Ord, key, val)
		}
	case "max":
		switch k.VType {
		case "int64":
			call.DoSetMaxInt64(o.Ord, key, mustInt(val))
		case "float64":
			call.DoSetMaxFloat64(o.Ord, key, mustFloat(val))
		case "bigint":
			call.DoSetMaxBigInt(o.Ord, key, val)
		default:
			call.DoSetMaxBigDecimal(o.Ord, key, val)
		}
	case "set_sum":
		pfx := "set:"
		if o.Sum {
			pfx = "sum:"
		}
		switch k.VType {
		case "int64":
			call.DoSetSumInt64(o.Ord, key, pfx+val)
		case "float64":
			call.DoSetSumFloat64(o.Ord, key, pfx+val)
		case "bigint":
			call.DoSetSumBigInt(o.Ord, key, pfx+val)
		default:
			call.DoSetSumBigDecimal(o.Ord, key, pfx+val)
		}
	default:
		panic("unknown policy " + k.Policy)
	}
}

func mustInt(s string) int64 {
	v, err := strconv.ParseInt(s, 10, 64)
	if err != nil {
		panic(err)
	}
	return v
}

func mustFloat(s string) float64 {
	v, err := strconv.ParseFloat(s, 64)
	if err != nil {
		panic(err)
	}
	return v
}

// ---------------------------------------------------------------- model

// MVal is a model value: bytes for byte kinds, an exact rational for numeric kinds.
type MVal struct {
	B []byte
	N *big.Rat
}

func (v MVal) String() string {
	if v.N != nil {
		return v.N.RatString()
	}
	return strconv.Quote(string(v.B))
}

func ratOf(s string) *big.Rat {
	r, ok := new(big.Rat).SetString(s)
	if !ok {
		panic("model: not a number: " + s)
	}
	return r
}

// Model is the reference store: a map from key to typed value.
type Model struct {
	Kind Kind
	KV   map[string]MVal
}

func NewModel(k Kind) *Model { return &Model{Kind: k, KV: map[string]MVal{}} }

func (m *Model) Clone() *Model {
	out := NewModel(m.Kind)
	for k, v := range m.KV {
		out.KV[k] = v
	}
	return out
}

// MDelta is what one operation did to one key in the model.
type MDelta struct {
	Ord      uint64
	Key      string
	Op       string // CREATE, UPDATE, DELETE
	Old, New MVal
}

// SortOps returns the ops in stable ordinal order.
func SortOps(ops []Op) []Op {
	out := append([]Op(nil), ops...)
	sort.SliceStable(out, func(i, j int) bool { return out[i].Ord < out[j].Ord })
	return out
}

// ApplyBlock applies the block's operations in stable ordinal order and returns
// the per-key deltas in order.
func (m *Model) ApplyBlock(ops []Op) []MDelta {
	var deltas []MDelta
	for _, o := range SortOps(ops) {
		key := string(o.Key)
		if o.Del {
			var ks []string
			for k := range m.KV {
				if strings.HasPrefix(k, key) {
					ks = append(ks, k)
				}
			}
			sort.Strings(ks)
			for _, k := range ks {
				deltas = append(deltas, MDelta{Ord: o.Ord, Key: k, Op: "DELETE", Old: m.KV[k]})
				delete(m.KV, k)
			}
			continue
		}
		old, found := m.KV[key]
		var nv MVal
		switch m.Kind.Policy {
		case "set":
			nv = MVal{B: []byte(o.Val)}
		case "set_if_not_exists":
			if found {
				continue
			}
			nv = MVal{B: []byte(o.Val)}
		case "append":
			nv = MVal{B: append(append([]byte{}, old.B...), []byte(o.Val)...)}
		case "add":
			nv = MVal{N: ratOf(string(o.Val))}
			if found {
				nv.N = new(big.Rat).Add(old.N, nv.N)
			}
		case "min":
			nv = MVal{N: ratOf(string(o.Val))}
			if found && old.N.Cmp(nv.N) < 0 {
				nv = old
			}
		case "max":
			nv = MVal{N: ratOf(string(o.Val))}
			if found && old.N.Cmp(nv.N) > 0 {
				nv = old
			}
		case "set_sum":
			nv = MVal{N: ratOf(string(o.Val))}
			if o.Sum && found {
				nv.N = new(big.Rat).Add(old.N, nv.N)
			}
		}
		op := "CREATE"
		if found {
			op = "UPDATE"
		}
		m.KV[key] = nv
		deltas = append(deltas, MDelta{Ord: o.Ord, Key: key, Op: op, Old: old, New: nv})
	}
	return deltas
}

// ParseStoreValue turns the bytes a store holds into a model value. For
// set_sum stores the "set:"/"sum:" tag is stripped.
func ParseStoreValue(k Kind, b []byte) (MVal, error) {
	if !k.Numeric() {
		return MVal{B: b}, nil
	}
	s := string(b)
	if k.Policy == "set_sum" && (strings.HasPrefix(s, "set:") || strings.HasPrefix(s, "sum:")) {
		s = s[4:]
	}
	r, ok := new(big.Rat).SetString(s)
	if !ok {
		return MVal{}, fmt.Errorf("value %q is not a number", string(b))
	}
	return MVal{N: r}, nil
}

// Equal is the typed comparison of the properties: numbers by value, bytes bytewise (nil == empty).
func (v MVal) Equal(o MVal) bool {
	if (v.N == nil) != (o.N == nil) {
		return false
	}
	if v.N != nil {
		return v.N.Cmp(o.N) == 0
	}
	return bytes.Equal(v.B, o.B)
}

// EqualStore says whether store bytes b denote model value v.
func EqualStore(k Kind, b []byte, v MVal) bool {
	p, err := ParseStoreValue(k, b)
	if err != nil {
		return false
	}
	return p.Equal(v)
}

// Iterable is the part of store.Store used for comparisons.
type Iterable interface {
	Iter(func(key string, value []byte) error) error
}

func Snapshot(s Iterable) map[string][]byte {
	out := map[string][]byte{}
	_ = s.Iter(func(k string, v []byte) error {
		out[k] = append([]byte{}, v...)
		return nil
	})
	return out
}

// DiffModel returns "" when the store content is typed-equal to the model.
func DiffModel(k Kind, got map[string][]byte, m *Model) string {
	var diffs []string
	for key, want := range m.KV {
		b, ok := got[key]
		if !ok {
			diffs = append(diffs, fmt.Sprintf("key %q missing (want %s)", key, want))
			continue
		}
		if !EqualStore(k, b, want) {
			diffs = append(diffs, fmt.Sprintf("key %q = %q, want %s", key, b, want))
		}
	}
	for key, b := range got {
		if _, ok := m.KV[key]; !ok {
			diffs = append(diffs, fmt.Sprintf("key %q = %q should not exist", key, b))
		}
	}
	sort.Strings(diffs)
	return strings.Join(diffs, "; ")
}

// DiffStores returns "" when two store contents are typed-equal.
func DiffStores(k Kind, a, b map[string][]byte) string {
	var diffs []string
	for key, va := range a {
		vb, ok := b[key]
		if !ok {
			diffs = append(diffs, fmt.Sprintf("key %q only on the left (=%q)", key, va))
			continue
		}
		pa, ea := ParseStoreValue(k, va)
		pb, eb := ParseStoreValue(k, vb)
		if ea != nil || eb != nil || !pa.Equal(pb) {
			diffs = append(diffs, fmt.Sprintf("key %q: %q vs %q", key, va, vb))
		}
	}
	for key, vb := range b {
		if _, ok := a[key]; !ok {
			diffs = append(diffs, fmt.Sprintf("key %q only on the right (=%q)", key, vb))
		}
	}
	sort.Strings(diffs)
	return strings.Join(diffs, "; ")
}

// ByteSize is the size a store must report for this content.
func ByteSize(kv map[string][]byte) uint64 {
	var n uint64
	for k, v := range kv {
		n += uint64(len(k) + len(v))
	}
	return n
}
