package sdsl

import (
	"fmt"
	"strings"

	"pgregory.net/rapid"
)

// Keys is the small key alphabet: shared prefixes, control and multi-byte characters, separators.
// Keys are valid UTF-8: a key travels in the string fields of the operation log and of the deltas,
// whose protobuf encoding rejects anything else, so no module can use other keys.
var Keys = []string{"a", "ab", "abc", "b", "ba", "bb", "c", "a\x00", "a:1", "\u00fe\u00ff", "k\u00e9\u4e16"}

// Prefixes are the arguments of delete_prefix (the empty prefix deletes everything).
var Prefixes = []string{"a", "ab", "b", "a", "abc", "c", "a:", "\u00fe", "zz", "k", ""}

func GenKind(t *rapid.T) Kind {
	ks := AllKinds()
	return ks[rapid.IntRange(0, len(ks)-1).Draw(t, "kind")]
}

// GenNumber draws a number (as decimal text) on which the arithmetic of the
// value type is exact and order-independent: integers below 2^40, floats that
// are multiples of 1/8 below 2^20, decimals with at most 6 fractional digits.
func GenNumber(t *rapid.T, vtype string) string {
	small := rapid.IntRange(0, 2).Draw(t, "small") > 0
	switch vtype {
	case "int64":
		if small {
			return fmt.Sprint(rapid.Int64Range(-3, 3).Draw(t, "n"))
		}
		return fmt.Sprint(rapid.Int64Range(-(1<<40), 1<<40).Draw(t, "n"))
	case "bigint":
		if small {
			return fmt.Sprint(rapid.Int64Range(-3, 3).Draw(t, "n"))
		}
		hi := rapid.Int64Range(-(1<<50), 1<<50).Draw(t, "hi")
		lo := rapid.Int64Range(0, 999999999999).Draw(t, "lo")
		if rapid.Bool().Draw(t, "wide") {
			return fmt.Sprintf("%d%012d", hi, lo)
		}
		return fmt.Sprint(hi)
	case "float64":
		var k int64
		if small {
			k = rapid.Int64Range(-16, 16).Draw(t, "k")
		} else {
			k = rapid.Int64Range(-(1<<23), 1<<23).Draw(t, "k")
		}
		neg := k < 0
		if neg {
			k = -k
		}
		s := fmt.Sprintf("%d.%03d", k/8, (k%8)*125)
		if neg {
			s = "-" + s
		}
		return s
	default: // bigdecimal, bigfloat
		var unscaled int64
		if small {
			unscaled = rapid.Int64Range(-3, 3).Draw(t, "u") * 500000
		} else {
			unscaled = rapid.Int64Range(-(1<<40), 1<<40).Draw(t, "u")
		}
		neg := unscaled < 0
		if neg {
			unscaled = -unscaled
		}
		s := fmt.Sprintf("%d.%06d", unscaled/1000000, unscaled%1000000)
		if rapid.Bool().Draw(t, "trim") {
			s = strings.TrimRight(strings.TrimRight(s, "0"), ".")
			if s == "" {
				s = "0"
			}
		}
		if neg && strings.Trim(s, "0.") != "" {
			s = "-" + s
		}
		return s
	}
}

func GenBytes(t *rapid.T) string {
	if rapid.IntRange(0, 24).Draw(t, "longvalue") == 0 {
		// 128 bytes and more: the length prefix of the field takes two bytes in a snapshot
		return rapid.StringMatching("[a-z]{128,200}").Draw(t, "vlong")
	}
	switch rapid.IntRange(0, 5).Draw(t, "vk") {
	case 0:
		return ""
	case 1:
		return rapid.SampledFrom([]string{"x", "y", "zz"}).Draw(t, "v")
	case 2:
		return string(rapid.SliceOfN(rapid.Byte(), 0, 6).Draw(t, "v"))
	default:
		return rapid.StringMatching("[a-z0-9]{1,8}").Draw(t, "v")
	}
}

// GenOp draws one operation admitted by kind k; delPct is the percentage of delete_prefix.
func GenOp(t *rapid.T, k Kind, maxOrd uint64, delPct int) Op {
	ord := rapid.Uint64Range(0, maxOrd).Draw(t, "ord")
	if rapid.IntRange(0, 19).Draw(t, "farord") == 0 {
		// ordinals are any uint64: far apart ones (differences above 2^63 wrap around in a subtraction)
		ord = rapid.SampledFrom([]uint64{1 << 32, 1<<63 - 1, 1 << 63, 1<<63 + 7, ^uint64(0) - 1, ^uint64(0)}).Draw(t, "farordv")
	}
	if rapid.IntRange(0, 99).Draw(t, "isdel") < delPct {
		return Op{Ord: ord, Key: Bin(rapid.SampledFrom(Prefixes).Draw(t, "prefix")), Del: true}
	}
	o := Op{Ord: ord, Key: Bin(rapid.SampledFrom(Keys).Draw(t, "key"))}
	if k.Numeric() {
		o.Val = Bin(GenNumber(t, k.VType))
		if k.Policy == "set_sum" {
			o.Sum = rapid.IntRange(0, 2).Draw(t, "sumform") > 0
			if !o.Sum && rapid.IntRange(0, 2).Draw(t, "setzero") == 0 {
				// "set:0" followed by "sum:" forms: a partial store must keep the set mark of a value that is zero
				o.Val = Bin("0")
			}
		}
	} else {
		o.Val = Bin(GenBytes(t))
	}
	return o
}

// GenBlocks draws nb blocks of up to maxOps operations each.
func GenBlocks(t *rapid.T, k Kind, minBlocks, maxBlocks, maxOps int, delPct int) [][]Op {
	nb := rapid.IntRange(minBlocks, maxBlocks).Draw(t, "nblocks")
	out := make([][]Op, nb)
	for i := range out {
		n := rapid.IntRange(0, maxOps).Draw(t, "nops")
		maxOrd := rapid.SampledFrom([]uint64{1, 3, 6, 6, 20}).Draw(t, "maxord")
		if rapid.IntRange(0, 24).Draw(t, "bigblock") == 0 {
			n = rapid.IntRange(13, 40).Draw(t, "nbig") // long block, many ordinal ties
			maxOrd = rapid.SampledFrom([]uint64{1, 2, 4}).Draw(t, "maxordbig")
		}
		for j := 0; j < n; j++ {
			out[i] = append(out[i], GenOp(t, k, maxOrd, delPct))
		}
	}
	return out
}
