// Package gdsl describes module graphs as plain serialisable values, converts
// them to pbsubstreams.Modules and generates valid ones.
package gdsl

import (
	"fmt"
	"sort"

	pbsubstreams "github.com/streamingfast/substreams/pb/sf/substreams/v1"
	"pgregory.net/rapid"

	"verif/sdsl"
)

const (
	BlockType = "sf.substreams.v1.test.Block"
	ClockType = "sf.substreams.v1.Clock"
)

type In struct {
	T     string `json:"t"`               // source, params, map, store
	Ref   string `json:"ref,omitempty"`   // module name (map/store) or source type
	Mode  string `json:"mode,omitempty"`  // store: get | deltas
	Value string `json:"value,omitempty"` // params value
}

type Filter struct {
	Module     string `json:"module"`
	Query      string `json:"query,omitempty"`
	FromParams bool   `json:"from_params,omitempty"`
}

type Mod struct {
	Name    string  `json:"name"`
	Kind    string  `json:"kind"` // map, store, index
	Policy  string  `json:"policy,omitempty"`
	VType   string  `json:"vtype,omitempty"`
	Initial uint64  `json:"initial"`
	Inputs  []In    `json:"inputs"`
	Filter  *Filter `json:"filter,omitempty"`
	Binary  uint32  `json:"binary"`
	Entry   string  `json:"entry"`
}

type Bin struct {
	Type    string   `json:"type"`
	Content sdsl.Bin `json:"content"`
}

type Graph struct {
	Mods []Mod `json:"mods"`
	Bins []Bin `json:"bins"`
}

func (g Graph) Clone() Graph {
	out := Graph{Bins: append([]Bin(nil), g.Bins...)}
	for _, m := range g.Mods {
		c := m
		c.Inputs = append([]In(nil), m.Inputs...)
		if m.Filter != nil {
			f := *m.Filter
			c.Filter = &f
		}
		out.Mods = append(out.Mods, c)
	}
	return out
}

func (g Graph) Index(name string) int {
	for i, m := range g.Mods {
		if m.Name == name {
			return i
		}
	}
	return -1
}

func (m Mod) PB() *pbsubstreams.Module {
	out := &pbsubstreams.Module{Name: m.Name, BinaryIndex: m.Binary, BinaryEntrypoint: m.Entry, InitialBlock: m.Initial}
	switch m.Kind {
	case "map":
		out.Kind = &pbsubstreams.Module_KindMap_{KindMap: &pbsubstreams.Module_KindMap{OutputType: "proto:sf.substreams.v1.test.MapResult"}}
		out.Output = &pbsubstreams.Module_Output{Type: "proto:sf.substreams.v1.test.MapResult"}
	case "store":
		out.Kind = &pbsubstreams.Module_KindStore_{KindStore: &pbsubstreams.Module_KindStore{UpdatePolicy: sdsl.Kind{Policy: m.Policy}.PB(), ValueType: m.VType}}
	case "index":
		out.Kind = &pbsubstreams.Module_KindBlockIndex_{KindBlockIndex: &pbsubstreams.Module_KindBlockIndex{OutputType: "proto:sf.substreams.index.v1.Keys"}}
		out.Output = &pbsubstreams.Module_Output{Type: "proto:sf.substreams.index.v1.Keys"}
	}
	for _, in := range m.Inputs {
		switch in.T {
		case "source":
			out.Inputs = append(out.Inputs, &pbsubstreams.Module_Input{Input: &pbsubstreams.Module_Input_Source_{Source: &pbsubstreams.Module_Input_Source{Type: in.Ref}}})
		case "params":
			out.Inputs = append(out.Inputs, &pbsubstreams.Module_Input{Input: &pbsubstreams.Module_Input_Params_{Params: &pbsubstreams.Module_Input_Params{Value: in.Value}}})
		case "map":
			out.Inputs = append(out.Inputs, &pbsubstreams.Module_Input{Input: &pbsubstreams.Module_Input_Map_{Map: &pbsubstreams.Module_Input_Map{ModuleName: in.Ref}}})
		case "store":
			mode := pbsubstreams.Module_Input_Store_GET
			if in.Mode == "deltas" {
				mode = pbsubstreams.Module_Input_Store_DELTAS
			}
			out.Inputs = append(out.Inputs, &pbsubstreams.Module_Input{Input: &pbsubstreams.Module_Input_Store_{Store: &pbsubstreams.Module_Input_Store{ModuleName: in.Ref, Mode: mode}}})
		}
	}
	if m.Filter != nil {
		bf := &pbsubstreams.Module_BlockFilter{Module: m.Filter.Module}
		if m.Filter.FromParams {
			bf.Query = &pbsubstreams.Module_BlockFilter_QueryFromParams{QueryFromParams: &pbsubstreams.Module_QueryFromParams{}}
		} else {
			bf.Query = &pbsubstreams.Module_BlockFilter_QueryString{QueryString: m.Filter.Query}
		}
		out.BlockFilter = bf
	}
	return out
}

func (g Graph) PB() *pbsubstreams.Modules {
	out := &pbsubstreams.Modules{}
	for _, b := range g.Bins {
		out.Binaries = append(out.Binaries, &pbsubstreams.Binary{Type: b.Type, Content: []byte(b.Content)})
	}
	for _, m := range g.Mods {
		out.Modules = append(out.Modules, m.PB())
	}
	return out
}

// Deps returns the names of the modules m reads from (inputs and block filter).
func (m Mod) Deps() []string {
	var out []string
	for _, in := range m.Inputs {
		if in.T == "map" || in.T == "store" {
			out = append(out, in.Ref)
		}
	}
	if m.Filter != nil {
		out = append(out, m.Filter.Module)
	}
	return out
}

// Ancestors is the harness' own reachability: every module name reachable from name through Deps.
func (g Graph) Ancestors(name string) map[string]bool {
	out := map[string]bool{}
	var visit func(n string)
	visit = func(n string) {
		i := g.Index(n)
		if i < 0 {
			return
		}
		for _, d := range g.Mods[i].Deps() {
			if !out[d] {
				out[d] = true
				visit(d)
			}
		}
	}
	visit(name)
	return out
}

// Descendants returns the modules that have name among their ancestors.
func (g Graph) Descendants(name string) map[string]bool {
	out := map[string]bool{}
	for _, m := range g.Mods {
		if g.Ancestors(m.Name)[name] {
			out[m.Name] = true
		}
	}
	return out
}

func (g Graph) Names() []string {
	var out []string
	for _, m := range g.Mods {
		out = append(out, m.Name)
	}
	sort.Strings(out)
	return out
}

// ---------------------------------------------------------------- generation

// Opts steers GenGraph.
type Opts struct {
	MinMods, MaxMods int
	InitialBlocks    []uint64 // candidate initial blocks
	AllowInvalidInit bool     // also produce modules with no input available at their initial block
	// ParamsLikeNames: a params value is an arbitrary string of the user: it may happen to be the name of a
	// module of the package (another one, or the module's own)
	ParamsLikeNames bool
	FilterKeys       []string // keys usable in block filter queries
	StoreKinds       []sdsl.Kind
}

var defaultFilterKeys = []string{"k0", "k1", "k2", "k3"}

// GenQuery draws a filter expression over keys (grammar accepted by sqe.Parse).
func GenQuery(t *rapid.T, keys []string, depth int) string {
	if depth <= 0 || rapid.IntRange(0, 2).Draw(t, "leaf") == 0 {
		return rapid.SampledFrom(keys).Draw(t, "qkey")
	}
	a, b := GenQuery(t, keys, depth-1), GenQuery(t, keys, depth-1)
	switch rapid.IntRange(0, 3).Draw(t, "qop") {
	case 0:
		return "(" + a + " || " + b + ")"
	case 1:
		return "(" + a + " && " + b + ")"
	case 2:
		return "(" + a + " || '" + b0(b) + "')"
	default:
		return "(" + a + " " + b + ")"
	}
}

// b0 turns an expression into a harmless quoted key when it is a plain key, else returns k0.
func b0(expr string) string {
	for _, c := range expr {
		if c == '(' || c == ' ' || c == '\'' {
			return "k0"
		}
	}
	return expr
}

// GenGraph draws an acyclic module graph that passes request validation: names match the
// name regexp, params first, references only to earlier modules of the right kind,
// block filters only on index modules whose initial block is not greater, and (unless
// AllowInvalidInit) at least one input available at the module's initial block.
func GenGraph(t *rapid.T, o Opts) Graph {
	if o.MaxMods == 0 {
		o.MinMods, o.MaxMods = 1, 12
	}
	if len(o.InitialBlocks) == 0 {
		o.InitialBlocks = []uint64{0, 0, 1, 5, 10, 11, 20, 33}
	}
	if len(o.FilterKeys) == 0 {
		o.FilterKeys = defaultFilterKeys
	}
	if len(o.StoreKinds) == 0 {
		o.StoreKinds = sdsl.AllKinds()
	}
	n := rapid.IntRange(o.MinMods, o.MaxMods).Draw(t, "nmods")
	nb := rapid.IntRange(1, 3).Draw(t, "nbins")
	g := Graph{}
	for i := 0; i < nb; i++ {
		g.Bins = append(g.Bins, Bin{Type: "wasm/rust-v1", Content: sdsl.Bin(fmt.Sprintf("code-%d-%s", i, rapid.StringMatching("[a-z]{0,6}").Draw(t, "code")))})
	}
	var maps, stores, indexes []int
	for i := 0; i < n; i++ {
		m := Mod{Binary: uint32(rapid.IntRange(0, nb-1).Draw(t, "bin"))}
		kindRoll := rapid.IntRange(0, 9).Draw(t, "kindroll")
		switch {
		case kindRoll < 5:
			m.Kind = "map"
			m.Name = fmt.Sprintf("map_%d", i)
		case kindRoll < 8:
			m.Kind = "store"
			m.Name = fmt.Sprintf("store_%d", i)
			k := o.StoreKinds[rapid.IntRange(0, len(o.StoreKinds)-1).Draw(t, "storekind")]
			m.Policy, m.VType = k.Policy, k.VType
		default:
			m.Kind = "index"
			m.Name = fmt.Sprintf("index_%d", i)
		}
		m.Entry = m.Name
		if rapid.IntRange(0, 5).Draw(t, "sharedentry") == 0 {
			m.Entry = "shared_entry"
		}
		m.Initial = rapid.SampledFrom(o.InitialBlocks).Draw(t, "initial")

		// inputs
		paramsOnly := m.Kind != "index" && rapid.IntRange(0, 9).Draw(t, "paramsonly") == 0
		if paramsOnly {
			m.Inputs = []In{{T: "params", Value: rapid.SampledFrom(pvalues(o, g, m.Name)).Draw(t, "pvalue")}}
		} else {
			if m.Kind != "index" && rapid.IntRange(0, 4).Draw(t, "hasparams") == 0 {
				m.Inputs = append(m.Inputs, In{T: "params", Value: rapid.SampledFrom(pvalues(o, g, m.Name)).Draw(t, "pvalue")})
			}
			nin := rapid.IntRange(1, 3).Draw(t, "nin")
			used := map[string]bool{}
			for j := 0; j < nin; j++ {
				var choices []string
				choices = append(choices, "block", "clock")
				if len(maps) > 0 {
					choices = append(choices, "map", "map")
				}
				if len(stores) > 0 && m.Kind != "index" {
					choices = append(choices, "store", "store")
				}
				var in In
				switch rapid.SampledFrom(choices).Draw(t, "intype") {
				case "block":
					in = In{T: "source", Ref: BlockType}
				case "clock":
					in = In{T: "source", Ref: ClockType}
				case "map":
					in = In{T: "map", Ref: g.Mods[maps[rapid.IntRange(0, len(maps)-1).Draw(t, "mapref")]].Name}
				case "store":
					in = In{T: "store", Ref: g.Mods[stores[rapid.IntRange(0, len(stores)-1).Draw(t, "storeref")]].Name, Mode: rapid.SampledFrom([]string{"get", "get", "deltas"}).Draw(t, "mode")}
				}
				if used[in.T+in.Ref] {
					continue
				}
				used[in.T+in.Ref] = true
				m.Inputs = append(m.Inputs, in)
			}
		}
		// make the initial block valid: some input must exist there
		if !o.AllowInvalidInit || rapid.IntRange(0, 2).Draw(t, "keepvalid") > 0 {
			if !g.InputAvailable(m) {
				lowest := ^uint64(0)
				for _, in := range m.Inputs {
					if in.T == "map" || in.T == "store" {
						if ib := g.Mods[g.Index(in.Ref)].Initial; ib < lowest {
							lowest = ib
						}
					}
				}
				if lowest != ^uint64(0) {
					m.Initial = lowest + rapid.SampledFrom([]uint64{0, 0, 1, 7}).Draw(t, "above")
				}
			}
		}
		// block filter
		if m.Kind != "index" && len(indexes) > 0 && rapid.IntRange(0, 2).Draw(t, "hasfilter") == 0 {
			idx := g.Mods[indexes[rapid.IntRange(0, len(indexes)-1).Draw(t, "filterref")]]
			if idx.Initial <= m.Initial {
				f := &Filter{Module: idx.Name, Query: GenQuery(t, o.FilterKeys, 2)}
				if len(m.Inputs) > 0 && m.Inputs[0].T == "params" && m.Inputs[0].Value != "" && m.Inputs[0].Value != "p" && rapid.Bool().Draw(t, "fromparams") {
					f = &Filter{Module: idx.Name, FromParams: true}
				}
				m.Filter = f
			}
		}
		g.Mods = append(g.Mods, m)
		switch m.Kind {
		case "map":
			maps = append(maps, i)
		case "store":
			stores = append(stores, i)
		default:
			indexes = append(indexes, i)
		}
	}
	return g
}

func pvalues(o Opts, g Graph, own string) []string {
	out := []string{"", "p", "k0 || k1"}
	if o.ParamsLikeNames {
		out = append(out, "p", "p", own)
		for _, m := range g.Mods {
			out = append(out, m.Name)
		}
	}
	return out
}

// InputAvailable is the harness' statement of "some input exists at the module's initial block":
// a source input, a lone params input, or a map/store input whose initial block is not greater.
func (g Graph) InputAvailable(m Mod) bool {
	for _, in := range m.Inputs {
		switch in.T {
		case "source":
			return true
		case "params":
			if len(m.Inputs) == 1 {
				return true
			}
		case "map", "store":
			if i := g.Index(in.Ref); i >= 0 && g.Mods[i].Initial <= m.Initial {
				return true
			}
		}
	}
	return false
}

// InputDefinitelyUnavailable: no params at all, no source, and every referenced module starts later.
func (g Graph) InputDefinitelyUnavailable(m Mod) bool {
	for _, in := range m.Inputs {
		switch in.T {
		case "source", "params":
			return false
		case "map", "store":
			if i := g.Index(in.Ref); i >= 0 && g.Mods[i].Initial <= m.Initial {
				return false
			}
		}
	}
	return true
}
