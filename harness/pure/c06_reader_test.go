package pure

// C06 — importing the package under an alias through the real manifest reader leaves every identifier unchanged.

import (
	"fmt"
	"os"
	"path/filepath"
	"strings"
	"testing"

	"github.com/streamingfast/substreams/manifest"
	pbsubstreams "github.com/streamingfast/substreams/pb/sf/substreams/v1"
	"google.golang.org/protobuf/proto"
	"pgregory.net/rapid"

	"verif/ev"
	"verif/gdsl"
)

type c06AliasCase struct {
	Graph gdsl.Graph `json:"graph"`
	Alias string     `json:"alias"`
	Uses  string     `json:"uses"` // base module the importing package's own module reads ("" = none)
	// the importing package's own binary: its type, and whether its bytes equal those of one of the imported binaries
	OwnType    string `json:"own_type"`
	OwnSameAs  int    `json:"own_same_as"` // index of the imported binary with the same bytes, -1 = different bytes
	SkipSource bool   `json:"skip_source"` // read with SkipSourceCodeReader (own binary content left empty)
	// OwnName: name of the importing package's own module; it may be the name of one of the imported modules (the
	// package then holds both X and alias:X)
	OwnName string `json:"own_name,omitempty"`
}

func genC06Alias(t *rapid.T) c06AliasCase {
	c := c06AliasCase{Graph: gdsl.GenGraph(t, gdsl.Opts{MinMods: 2, MaxMods: 8})}
	c.Alias = rapid.SampledFrom([]string{"alias", "base", "x1", "other_pkg"}).Draw(t, "alias")
	var maps []string
	for _, m := range c.Graph.Mods {
		if m.Kind == "map" {
			maps = append(maps, m.Name)
		}
	}
	if len(maps) > 0 && rapid.Bool().Draw(t, "uses") {
		c.Uses = rapid.SampledFrom(maps).Draw(t, "usesmap")
	}
	c.OwnType = rapid.SampledFrom([]string{"wasm/rust-v1", "wasm/rust-v1", "wasm/rust-v1+wasm-bindgen-shims", "wasip1/tinygo-v1"}).Draw(t, "owntype")
	c.OwnSameAs = -1
	if len(c.Graph.Bins) > 0 && rapid.Bool().Draw(t, "samebytes") {
		c.OwnSameAs = rapid.IntRange(0, len(c.Graph.Bins)-1).Draw(t, "sameas")
	}
	c.SkipSource = rapid.IntRange(0, 3).Draw(t, "skipsource") == 0
	c.OwnName = "own_map"
	if rapid.IntRange(0, 2).Draw(t, "homonym") == 0 {
		c.OwnName = c.Graph.Mods[rapid.IntRange(0, len(c.Graph.Mods)-1).Draw(t, "homonymof")].Name
	}
	return c
}

func checkC06Alias(c c06AliasCase) *ev.Failure {
	return safely(func() *ev.Failure {
		base, err := hashes(c.Graph)
		if err != nil {
			return ev.Failf("hash-error/original", "%v", err)
		}
		dir, err := os.MkdirTemp(os.Getenv("VERIF_SCRATCH"), "alias-")
		if err != nil {
			return ev.Failf("harness", "%v", err)
		}
		defer os.RemoveAll(dir)
		pb := c.Graph.PB()
		pkg := &pbsubstreams.Package{Version: 1, Modules: pb, PackageMeta: []*pbsubstreams.PackageMetadata{{Name: "basepkg", Version: "v0.1.0"}}}
		for range pb.Modules {
			pkg.ModuleMeta = append(pkg.ModuleMeta, &pbsubstreams.ModuleMetadata{PackageIndex: 0})
		}
		raw, err := proto.Marshal(pkg)
		if err != nil {
			return ev.Failf("harness", "%v", err)
		}
		if err := os.WriteFile(filepath.Join(dir, "base.spkg"), raw, 0o644); err != nil {
			return ev.Failf("harness", "%v", err)
		}
		own := []byte("own-code")
		if c.OwnSameAs >= 0 && c.OwnSameAs < len(pb.Binaries) {
			own = pb.Binaries[c.OwnSameAs].Content
		}
		os.WriteFile(filepath.Join(dir, "own.wasm"), own, 0o644)
		ownType := c.OwnType
		if ownType == "" {
			ownType = "wasm/rust-v1"
		}
		ownName := c.OwnName
		if ownName == "" {
			ownName = "own_map"
		}
		var y strings.Builder
		fmt.Fprintf(&y, "specVersion: v0.1.0\npackage:\n  name: importer\n  version: v0.1.0\nimports:\n  %s: ./base.spkg\nbinaries:\n  default:\n    type: %s\n    file: ./own.wasm\nmodules:\n  - name: %s\n    kind: map\n    initialBlock: 0\n    inputs:\n      - source: %s\n", c.Alias, ownType, ownName, gdsl.BlockType)
		if c.Uses != "" {
			fmt.Fprintf(&y, "      - map: %s:%s\n", c.Alias, c.Uses)
		}
		fmt.Fprintf(&y, "    output:\n      type: proto:sf.substreams.v1.test.MapResult\n")
		if err := os.WriteFile(filepath.Join(dir, "substreams.yaml"), []byte(y.String()), 0o644); err != nil {
			return ev.Failf("harness", "%v", err)
		}
		var opts []manifest.Option
		if c.SkipSource {
			opts = append(opts, manifest.SkipSourceCodeReader())
		}
		reader, err := manifest.NewReader(filepath.Join(dir, "substreams.yaml"), opts...)
		if err != nil {
			return ev.Failf("reader/new-error", "%v", err)
		}
		bundle, err := reader.Read()
		if err != nil {
			ev.Get("C06", "AliasImport").Discard("reader-rejected")
			ev.Get("C06", "AliasImport").Count("reader-error:"+firstWords(err.Error()), 1)
			return nil
		}
		mods := bundle.Package.Modules
		mg, err := manifest.NewModuleGraph(mods.Modules)
		if err != nil {
			return ev.Failf("alias/graph-error", "%v", err)
		}
		mh := manifest.NewModuleHashes()
		found := 0
		for _, m := range mods.Modules {
			h, err := mh.HashModule(mods, m, mg)
			if err != nil {
				return ev.Failf("alias/hash-error", "hashing %s: %v", m.Name, err)
			}
			if !strings.HasPrefix(m.Name, c.Alias+":") {
				continue
			}
			orig := strings.TrimPrefix(m.Name, c.Alias+":")
			found++
			if got := fmt.Sprintf("%x", []byte(h)); got != base[orig] {
				return ev.Failf("identity-changed/alias-import", "module %s imported as %s has identifier %s, it had %s in its own package", orig, m.Name, got, base[orig])
			}
		}
		if found != len(c.Graph.Mods) {
			return ev.Failf("alias/modules-missing", "%d of %d modules found under the alias", found, len(c.Graph.Mods))
		}
		return nil
	})
}

func firstWords(s string) string {
	f := strings.Fields(s)
	if len(f) > 6 {
		f = f[:6]
	}
	return strings.Join(f, " ")
}

func TestC06Alias(t *testing.T) {
	ev.Get("C06", "AliasImport").Rule = "rapid: a generated valid graph is written as an .spkg and imported under an alias by a generated YAML manifest (whose own module may read one of the imported mappers, and whose own binary has a generated type and bytes that may equal those of an imported binary; read with and without SkipSourceCodeReader), read with manifest.NewReader(...).Read() (prefixModules, reindexAndMergePackage); every imported module must keep the identifier it has in its own package; non-trivial = the importing module reads an imported mapper and the graph has >= 4 modules"
	ev.Prop(t, "C06", "AliasImport", genC06Alias, checkC06Alias, func(c c06AliasCase) (bool, []string) {
		return c.Uses != "" && len(c.Graph.Mods) >= 4, []string{"alias=" + c.Alias, fmt.Sprintf("own-bytes-shared=%v", c.OwnSameAs >= 0), "own-type=" + c.OwnType, fmt.Sprintf("own-module-homonym-of-an-imported-one=%v", c.OwnName != "" && c.OwnName != "own_map"), fmt.Sprintf("skip-source=%v", c.SkipSource)}
	})
}

func TestC06AliasReplay(t *testing.T) { ev.Replay(t, "C06", "AliasImport", checkC06Alias) }
