package pure

// C12 — request resolution and planning cover the requested range exactly.

import (
	"context"
	"errors"
	"fmt"
	"testing"

	"github.com/streamingfast/bstream"
	"github.com/streamingfast/substreams/block"
	"github.com/streamingfast/substreams/orchestrator/plan"
	pbsubstreamsrpc "github.com/streamingfast/substreams/pb/sf/substreams/rpc/v2"
	pbsubstreams "github.com/streamingfast/substreams/pb/sf/substreams/v1"
	"github.com/streamingfast/substreams/pipeline"
	"github.com/streamingfast/substreams/pipeline/exec"
	"pgregory.net/rapid"

	"verif/ev"
	"verif/gdsl"
)

type c12Case struct {
	Prod       bool     `json:"prod"`
	Seg        uint64   `json:"seg"`
	StoreInits []uint64 `json:"store_inits"` // 0..3 stores feeding the output map
	Chain      bool     `json:"chain"`       // stores read each other in a chain (affects the order StoresDownTo returns them in)
	OutInit    uint64   `json:"out_init"`
	Start      uint64   `json:"start"`
	Stop       uint64   `json:"stop"`  // 0 = unbounded
	Final      int64    `json:"final"` // -1 = unknown
}

func (c c12Case) graph() gdsl.Graph {
	g := gdsl.Graph{Bins: []gdsl.Bin{{Type: "wasm/rust-v1", Content: "code"}}}
	out := gdsl.Mod{Name: "out", Kind: "map", Initial: c.OutInit, Entry: "out", Inputs: []gdsl.In{{T: "source", Ref: gdsl.BlockType}}}
	for i, init := range c.StoreInits {
		name := fmt.Sprintf("store_%d", i)
		s := gdsl.Mod{Name: name, Kind: "store", Policy: "set", VType: "string", Initial: init, Entry: name, Inputs: []gdsl.In{{T: "source", Ref: gdsl.BlockType}}}
		if c.Chain && i > 0 {
			s.Inputs = append(s.Inputs, gdsl.In{T: "store", Ref: fmt.Sprintf("store_%d", i-1), Mode: "get"})
		}
		g.Mods = append(g.Mods, s)
		out.Inputs = append(out.Inputs, gdsl.In{T: "store", Ref: name, Mode: "get"})
	}
	g.Mods = append(g.Mods, out)
	return g
}

type c12Result struct {
	err      error
	details  *c12Details
	plan     *plan.RequestPlan
	rejected string // which step rejected
}

type c12Details struct {
	start, handoff, gate uint64
}

// runPlanning calls the two functions the way Tier1Service.blocks does.
func runPlanning(c c12Case, pb *pbsubstreams.Modules, eg *exec.Graph, cursor string, resolver pipeline.CursorResolver) (res c12Result, undo *pbsubstreamsrpc.BlockUndoSignal) {
	req := &pbsubstreamsrpc.Request{StartBlockNum: int64(c.Start), StopBlockNum: c.Stop, ProductionMode: c.Prod, OutputModule: "out", Modules: pb, StartCursor: cursor}
	final := func() (uint64, error) {
		if c.Final < 0 {
			return 0, errors.New("no recent final block known")
		}
		return uint64(c.Final), nil
	}
	head := func() (uint64, error) { return 1000, nil }
	rd, undoSig, err := pipeline.BuildRequestDetails(context.Background(), req, final, resolver, head, c.Seg)
	if err != nil {
		return c12Result{err: err, rejected: "BuildRequestDetails"}, nil
	}
	res.details = &c12Details{rd.ResolvedStartBlockNum, rd.LinearHandoffBlockNum, rd.LinearGateBlockNum}
	if rd.ResolvedStartBlockNum == c.Stop && c.Stop != 0 {
		res.err, res.rejected = errors.New("start block and stop block are the same"), "start==stop"
		return res, undoSig
	}
	if err := eg.ValidateRequestStartBlock(rd.ResolvedStartBlockNum); err != nil {
		res.err, res.rejected = err, "ValidateRequestStartBlock"
		return res, undoSig
	}
	scheduleStores := eg.StagedUsedModules()[0].LastLayer().IsStoreLayer()
	var lowestStores uint64
	if scheduleStores {
		lowestStores = *eg.LowestStoresInitBlock()
	}
	p, err := plan.BuildTier1RequestPlan(rd.ProductionMode, c.Seg, eg.LowestInitBlock(), lowestStores, rd.ResolvedStartBlockNum, rd.LinearHandoffBlockNum, rd.StopBlockNum, scheduleStores)
	if err != nil {
		res.err, res.rejected = err, "BuildTier1RequestPlan"
		return res, undoSig
	}
	res.plan = p
	return res, undoSig
}

func rangeStr(r *block.Range) string { return r.String() }

func rangeIs(r *block.Range, s, e uint64) bool {
	return r != nil && r.StartBlock == s && r.ExclusiveEndBlock == e
}

func minU(a, b uint64) uint64 {
	if a < b {
		return a
	}
	return b
}

// judgePlan is the oracle for a request without cursor; S is the (already resolved) start block.
func judgePlan(c c12Case, S uint64, res c12Result) *ev.Failure {
	E := c.Stop
	lowestStore, hasStore := ^uint64(0), len(c.StoreInits) > 0
	for _, s := range c.StoreInits {
		if s < lowestStore {
			lowestStore = s
		}
	}
	lowestInit := c.OutInit
	if hasStore && lowestStore < lowestInit {
		lowestInit = lowestStore
	}

	impossible := ""
	switch {
	case S < c.OutInit:
		impossible = "start below the output module's initial block"
	case E != 0 && S == E:
		impossible = "start == stop"
	}
	if res.err != nil {
		if impossible != "" {
			return nil
		}
		if c.Prod && E == 0 && c.Final < 0 {
			return nil // cannot plan an unbounded production request without knowing a final block
		}
		if E != 0 && S > E {
			return nil // empty range: rejecting is fine
		}
		return ev.Failf("reject/valid-request", "valid request rejected by %s: %v", res.rejected, res.err)
	}
	if impossible != "" {
		return ev.Failf("accept/impossible-request", "impossible request (%s) answered with a plan: %s", impossible, res.plan)
	}
	d, p := res.details, res.plan
	H := d.handoff
	if d.start != S {
		return ev.Failf("resolve/start", "resolved start %d, want %d", d.start, S)
	}
	if want := maxU(S, H); d.gate != want {
		return ev.Failf("resolve/gate", "gate %d, want max(start %d, hand-off %d)", d.gate, S, H)
	}
	if E != 0 && S > E {
		// start beyond stop (only reachable through a cursor on the stop block): the gate max(start, hand-off) > stop
		// lets nothing through and the cached-output walker skips everything; the statement does not require an error
		return nil
	}
	for name, r := range map[string]*block.Range{"BuildStores": p.BuildStores, "WriteExecOut": p.WriteExecOut, "ReadExecOut": p.ReadExecOut} {
		if r != nil && r.StartBlock >= r.ExclusiveEndBlock {
			return ev.Failf("plan/inverted-range", "%s=%s is empty or inverted in plan %s", name, r, p)
		}
	}
	if p.LinearPipeline != nil && p.LinearPipeline.ExclusiveEndBlock != 0 && p.LinearPipeline.StartBlock >= p.LinearPipeline.ExclusiveEndBlock {
		return ev.Failf("plan/inverted-range", "LinearPipeline=%s is empty or inverted in plan %s", p.LinearPipeline, p)
	}
	// stores built exactly up to the hand-off
	if hasStore && lowestStore < H {
		if !rangeIs(p.BuildStores, lowestStore, H) {
			return ev.Failf("plan/build-stores", "BuildStores=%s, want [%d, %d) (hand-off %d, plan %s)", p.BuildStores, lowestStore, H, H, p)
		}
	} else if p.BuildStores != nil {
		return ev.Failf("plan/build-stores-unneeded", "BuildStores=%s although no store starts below the hand-off %d", p.BuildStores, H)
	}
	// linear part
	if E == 0 || H < E {
		if !rangeIs(p.LinearPipeline, H, E) {
			return ev.Failf("plan/linear", "LinearPipeline=%s, want [%d, %d) (plan %s)", p.LinearPipeline, H, E, p)
		}
	} else if p.LinearPipeline != nil {
		return ev.Failf("plan/linear-unneeded", "LinearPipeline=%s although the hand-off %d is not below the stop block %d", p.LinearPipeline, H, E)
	}
	if c.Prod {
		if S < H {
			readEnd := H
			if E != 0 {
				readEnd = minU(H, E)
			}
			if !rangeIs(p.ReadExecOut, S, readEnd) {
				return ev.Failf("plan/read-execout", "ReadExecOut=%s, want [%d, %d) (plan %s)", p.ReadExecOut, S, readEnd, p)
			}
			if p.WriteExecOut == nil || p.WriteExecOut.ExclusiveEndBlock != H || p.WriteExecOut.StartBlock > S {
				return ev.Failf("plan/write-execout", "WriteExecOut=%s must end at the hand-off %d and start at or below the start block %d", p.WriteExecOut, H, S)
			}
			ws := p.WriteExecOut.StartBlock
			if ws%c.Seg != 0 && ws != lowestInit {
				return ev.Failf("plan/write-execout-unaligned", "WriteExecOut=%s starts neither on a segment boundary nor on the lowest initial block %d", p.WriteExecOut, lowestInit)
			}
			if S-ws >= c.Seg && ws/c.Seg != S/c.Seg {
				return ev.Failf("plan/write-execout-too-early", "WriteExecOut=%s starts more than a segment before the start block %d", p.WriteExecOut, S)
			}
		} else if p.ReadExecOut != nil || p.WriteExecOut != nil {
			return ev.Failf("plan/execout-unneeded", "ReadExecOut=%s WriteExecOut=%s although start %d is not below the hand-off %d", p.ReadExecOut, p.WriteExecOut, S, H)
		}
	} else {
		if p.ReadExecOut != nil || p.WriteExecOut != nil {
			return ev.Failf("plan/execout-in-dev", "development mode plans cached outputs: %s", p)
		}
		if H > S {
			return ev.Failf("plan/dev-handoff-above-start", "development mode hand-off %d above the start block %d: blocks [%d,%d) would never be delivered", H, S, S, H)
		}
	}
	// whole segments: whatever is handed to segment jobs ends on a boundary
	if (p.BuildStores != nil || p.WriteExecOut != nil) && H%c.Seg != 0 {
		return ev.Failf("plan/handoff-not-on-boundary", "hand-off %d is not a multiple of the segment size %d although segment jobs are needed: %s", H, c.Seg, p)
	}
	if p.BuildStores != nil || p.WriteExecOut != nil {
		var segs []*block.Segmenter
		if p.BuildStores != nil {
			segs = append(segs, p.StoresSegmenter())
			for _, init := range c.StoreInits {
				if init < H {
					segs = append(segs, p.ModuleSegmenter(init))
				}
			}
		}
		if p.WriteExecOut != nil {
			segs = append(segs, p.WriteOutSegmenter(), p.ReadOutSegmenter(c.OutInit))
		}
		bp := p.BackprocessSegmenter()
		// the scheduler hands out jobs segment by segment of the back-processing segmenter: a segment of the
		// stores or of the outputs to write that it does not contain is never given to a job (a gap)
		for _, sg := range segs {
			for idx := sg.FirstIndex(); idx <= sg.LastIndex(); idx++ {
				r, b := sg.Range(idx), bp.Range(idx)
				if r == nil {
					continue // judged below
				}
				if b == nil || b.StartBlock > r.StartBlock || b.ExclusiveEndBlock < r.ExclusiveEndBlock {
					return ev.Failf("plan/backprocess-gap", "segment %d = %s of a planned range is not covered by the back-processing segmenter (its segment %d is %s): plan %s", idx, r, idx, b, p)
				}
			}
		}
		segs = append(segs, bp)
		for _, sg := range segs {
			for idx := sg.FirstIndex(); idx <= sg.LastIndex(); idx++ {
				r := sg.Range(idx)
				jobStart, jobEnd := uint64(idx)*c.Seg, uint64(idx+1)*c.Seg
				if r == nil || r.ExclusiveEndBlock != jobEnd || (r.StartBlock != jobStart && r.StartBlock != sg.InitialBlock()) || r.StartBlock < jobStart {
					return ev.Failf("plan/segment-not-whole", "segment %d of a derived segmenter is %s but the job of that segment processes [%d,%d) (clipped below only by an initial block): plan %s", idx, r, jobStart, jobEnd, p)
				}
			}
		}
	}
	return nil
}

func maxU(a, b uint64) uint64 {
	if a > b {
		return a
	}
	return b
}

type graphCacheKey struct {
	inits   [3]uint64
	n       int
	chain   bool
	outInit uint64
}

var graphCache = map[graphCacheKey]struct {
	pb *pbsubstreams.Modules
	eg *exec.Graph
}{}

func graphsFor(c c12Case) (*pbsubstreams.Modules, *exec.Graph, error) {
	k := graphCacheKey{n: len(c.StoreInits), chain: c.Chain, outInit: c.OutInit}
	copy(k.inits[:], c.StoreInits)
	if v, ok := graphCache[k]; ok {
		return v.pb, v.eg, nil
	}
	pb := c.graph().PB()
	eg, err := exec.NewOutputModuleGraph("out", c.Prod, pb, 0)
	if err != nil {
		return nil, nil, err
	}
	if len(graphCache) > 20000 {
		graphCache = map[graphCacheKey]struct {
			pb *pbsubstreams.Modules
			eg *exec.Graph
		}{}
	}
	graphCache[k] = struct {
		pb *pbsubstreams.Modules
		eg *exec.Graph
	}{pb, eg}
	return pb, eg, nil
}

func checkC12(c c12Case) *ev.Failure {
	return safely(func() *ev.Failure {
		pb, eg, err := graphsFor(c)
		if err != nil {
			return nil // the generated graph itself is not stageable (chained store below its input): not a planning case
		}
		res, undo := runPlanning(c, pb, eg, "", nil)
		if undo != nil {
			return ev.Failf("resolve/undo-without-cursor", "undo signal without a cursor")
		}
		return judgePlan(c, c.Start, res)
	})
}

func c12Nontrivial(c c12Case) bool {
	if c.Start%c.Seg == 0 {
		return false
	}
	for _, s := range c.StoreInits {
		if s < c.Start {
			return true
		}
	}
	return false
}

func boundaryValues(seg uint64) []uint64 {
	return []uint64{0, 1, seg - 1, seg, seg + 1, 2*seg - 1, 2 * seg, 2*seg + 3}
}

func dedup(in []uint64) []uint64 {
	seen := map[uint64]bool{}
	var out []uint64
	for _, v := range in {
		if !seen[v] {
			seen[v] = true
			out = append(out, v)
		}
	}
	return out
}

// TestC12Grid enumerates the boundary-biased sub-grid completely.
func TestC12Grid(t *testing.T) {
	r := ev.Get("C12", "Grid")
	r.Exhaustive = true
	thorough := testingTier() == "thorough"
	segs := []uint64{2, 3, 5, 10}
	if thorough {
		segs = []uint64{2, 3, 4, 5, 6, 7, 8, 9, 10, 11, 12}
	}
	r.Rule = fmt.Sprintf("exhaustive over the boundary-biased sub-grid: mode x segment size %v x 0..2 store initial blocks, output initial block, start, stop-start and final block drawn from {0,1,seg-1,seg,seg+1,2seg-1,2seg,2seg+3} (+ unknown final, stop 0, chained stores); both functions called as Tier1Service.blocks calls them; non-trivial = start off-boundary and a store starts below it", segs)
	shard, n := ev.Shard()
	i := 0
	for _, seg := range segs {
		V := dedup(boundaryValues(seg))
		var storeSets [][]uint64
		storeSets = append(storeSets, nil)
		for _, a := range V {
			storeSets = append(storeSets, []uint64{a})
			for _, b := range V {
				storeSets = append(storeSets, []uint64{a, b})
			}
		}
		for _, prod := range []bool{false, true} {
			for _, stores := range storeSets {
				for _, chain := range []bool{false, true} {
					if chain && len(stores) < 2 {
						continue
					}
					for _, outInit := range V {
						i++
						if i%n != shard {
							continue
						}
						for _, start := range append(append([]uint64{}, V...), 3*seg+1) {
							stops := []uint64{0}
							for _, d := range []uint64{1, 2, seg - 1, seg, seg + 1, 2 * seg} {
								if d > 0 {
									stops = append(stops, start+d)
								}
							}
							stops = append(stops, start) // start == stop
							for _, stop := range dedup(stops) {
								finals := []int64{-1}
								for _, f := range append(append([]uint64{}, V...), 3*seg, 4*seg+1, 60) {
									finals = append(finals, int64(f))
								}
								for _, final := range finals {
									c := c12Case{Prod: prod, Seg: seg, StoreInits: stores, Chain: chain, OutInit: outInit, Start: start, Stop: stop, Final: final}
									f := checkC12(c)
									key := uint64(i)<<40 | start<<32 | stop<<16 | uint64(final+1)
									r.CaseKey(key, c12Nontrivial(c), func() any { return c })
									r.Report(t, c, f)
								}
							}
						}
					}
				}
			}
		}
	}
}

func testingTier() string {
	return envOr("VERIF_TIER", "quick")
}

func genC12(t *rapid.T) c12Case {
	c := c12Case{Prod: rapid.Bool().Draw(t, "prod"), Seg: rapid.Uint64Range(2, 12).Draw(t, "seg")}
	n := rapid.IntRange(0, 3).Draw(t, "nstores")
	for i := 0; i < n; i++ {
		c.StoreInits = append(c.StoreInits, rapid.Uint64Range(0, 40).Draw(t, "storeinit"))
	}
	c.Chain = n >= 2 && rapid.Bool().Draw(t, "chain")
	c.OutInit = rapid.Uint64Range(0, 40).Draw(t, "outinit")
	c.Start = rapid.Uint64Range(0, 45).Draw(t, "start")
	if rapid.IntRange(0, 3).Draw(t, "unbounded") == 0 {
		c.Stop = 0
	} else {
		c.Stop = rapid.Uint64Range(c.Start, 50).Draw(t, "stop")
		if c.Stop < c.Start {
			c.Stop = c.Start + 1
		}
	}
	if rapid.IntRange(0, 4).Draw(t, "finalunknown") == 0 {
		c.Final = -1
	} else {
		c.Final = int64(rapid.Uint64Range(0, 60).Draw(t, "final"))
	}
	return c
}

func TestC12Random(t *testing.T) {
	ev.Get("C12", "Random").Rule = "rapid over the quantifier's full grid: mode, segment size 2..12, up to three store initial blocks and an output initial block in 0..40, start 0..45, stop 0 or start..50, final block unknown or 0..60; same oracle"
	ev.Prop(t, "C12", "Random", genC12, checkC12, func(c c12Case) (bool, []string) {
		return c12Nontrivial(c), []string{fmt.Sprintf("prod=%v", c.Prod), fmt.Sprintf("stores=%d", len(c.StoreInits))}
	})
}

func TestC12GridReplay(t *testing.T)   { ev.Replay(t, "C12", "Grid", checkC12) }
func TestC12RandomReplay(t *testing.T) { ev.Replay(t, "C12", "Random", checkC12) }

// ---------------------------------------------------------------- cursors

type c12CursorCase struct {
	Plan     c12Case `json:"plan"` // Start is ignored
	Step     int     `json:"step"` // bstream.StepType value
	Block    uint64  `json:"block"`
	LIB      uint64  `json:"lib"`
	Head     uint64  `json:"head"`
	Resolver string  `json:"resolver"` // none, same, below, error
	Junction uint64  `json:"junction"` // for "below"
}

func ref(num uint64, tag string) bstream.BlockRef {
	return bstream.NewBlockRef(fmt.Sprintf("%s%d", tag, num), num)
}

func checkC12Cursor(c c12CursorCase) *ev.Failure {
	return safely(func() *ev.Failure {
		pb, eg, err := graphsFor(c.Plan)
		if err != nil {
			return nil
		}
		cur := &bstream.Cursor{Step: bstream.StepType(c.Step), Block: ref(c.Block, "b"), LIB: ref(c.LIB, "b"), HeadBlock: ref(c.Head, "b")}
		calls := 0
		resolver := func(ctx context.Context, cc *bstream.Cursor) (bstream.BlockRef, bstream.BlockRef, error) {
			calls++
			switch c.Resolver {
			case "none":
				return nil, ref(c.Head, "h"), nil
			case "same":
				return ref(c.Block, "b"), ref(c.Head, "h"), nil
			case "below":
				return ref(c.Junction, "j"), ref(c.Head, "h"), nil
			default:
				return nil, nil, errors.New("cursor cannot be resolved")
			}
		}
		p := c.Plan
		p.Start = 0
		res, undo := runPlanning(p, pb, eg, cur.ToOpaque(), resolver)

		final := c.Block == c.LIB
		var wantStart uint64
		wantUndo := false
		switch {
		case p.Stop > 0 && p.Stop < c.Block:
			if res.err == nil || res.rejected != "BuildRequestDetails" {
				return ev.Failf("cursor/beyond-stop-accepted", "cursor on block %d beyond stop block %d was not rejected", c.Block, p.Stop)
			}
			return nil
		case final:
			wantStart = c.Block + 1
		case c.LIB > c.Block:
			if res.err == nil || res.rejected != "BuildRequestDetails" {
				return ev.Failf("cursor/lib-above-block-accepted", "cursor with LIB %d above its block %d was not rejected", c.LIB, c.Block)
			}
			return nil
		case c.Resolver == "error":
			if res.err == nil || res.rejected != "BuildRequestDetails" {
				return ev.Failf("cursor/unresolvable-accepted", "unresolvable cursor was not rejected")
			}
			return nil
		case c.Resolver == "below" && c.Junction != c.Block:
			wantUndo = true
			wantStart = c.Junction + 1
		default:
			switch {
			case bstream.StepType(c.Step).Matches(bstream.StepNew):
				wantStart = c.Block + 1
			case bstream.StepType(c.Step).Matches(bstream.StepUndo):
				wantStart = c.Block
			default:
				return nil // a non-final cursor with a step that is neither new nor undo is not produced by the server
			}
		}
		if final && calls > 0 {
			return ev.Failf("cursor/final-resolved", "a cursor on a final block was sent to the fork resolver")
		}
		if res.details == nil {
			// rejected before/while resolving: acceptable only if the resolved request is impossible; re-judge with the plan oracle
			return judgePlan(p, wantStart, res)
		}
		if res.details.start != wantStart {
			return ev.Failf("cursor/start", "cursor %s (resolver %s) resolved to start %d, want %d", cur, c.Resolver, res.details.start, wantStart)
		}
		if wantUndo {
			if undo == nil {
				return ev.Failf("cursor/no-undo", "forked cursor %s (junction %d) produced no undo signal", cur, c.Junction)
			}
			if undo.LastValidBlock.Number != c.Junction || undo.LastValidBlock.Id != ref(c.Junction, "j").ID() {
				return ev.Failf("cursor/undo-block", "undo signal designates %d/%s, want the junction %d", undo.LastValidBlock.Number, undo.LastValidBlock.Id, c.Junction)
			}
			lv, err := bstream.CursorFromOpaque(undo.LastValidCursor)
			if err != nil || lv.Block.Num() != c.Junction {
				return ev.Failf("cursor/undo-cursor", "undo signal's cursor %q does not designate the junction %d", undo.LastValidCursor, c.Junction)
			}
		} else if undo != nil {
			return ev.Failf("cursor/spurious-undo", "cursor %s (resolver %s) produced an undo signal for %d", cur, c.Resolver, undo.LastValidBlock.Number)
		}
		return judgePlan(p, wantStart, res)
	})
}

func genC12Cursor(t *rapid.T) c12CursorCase {
	c := c12CursorCase{Plan: genC12(t)}
	c.Step = int(rapid.SampledFrom([]bstream.StepType{bstream.StepNew, bstream.StepUndo, bstream.StepIrreversible, bstream.StepNewIrreversible}).Draw(t, "step"))
	c.Block = rapid.Uint64Range(0, 48).Draw(t, "block")
	switch rapid.IntRange(0, 5).Draw(t, "librel") {
	case 0:
		c.LIB = c.Block
	case 1:
		c.LIB = c.Block + rapid.Uint64Range(1, 5).Draw(t, "libabove")
	default:
		c.LIB = c.Block - minU(c.Block, rapid.Uint64Range(1, 12).Draw(t, "libbelow"))
	}
	c.Head = c.Block + rapid.Uint64Range(0, 6).Draw(t, "head")
	c.Resolver = rapid.SampledFrom([]string{"none", "same", "below", "below", "error"}).Draw(t, "resolver")
	lo := c.LIB
	if lo > c.Block {
		lo = c.Block
	}
	c.Junction = rapid.Uint64Range(lo, c.Block).Draw(t, "junction")
	return c
}

func TestC12Cursor(t *testing.T) {
	ev.Get("C12", "Cursor").Rule = "rapid: cursor shapes step in {new, undo, irreversible, new+irreversible} x block/LIB/head relations (LIB equal, above, below) x every answer of a fake fork resolver (no junction, junction = block, junction below, error) on top of a random planning case; final cursor -> block+1 without undo nor resolver call; forked cursor -> undo signal for the junction and start junction+1; invalid cursors rejected; the resulting plan judged by the same oracle; non-trivial = forked cursor"
	ev.Prop(t, "C12", "Cursor", genC12Cursor, checkC12Cursor, func(c c12CursorCase) (bool, []string) {
		forked := c.Resolver == "below" && c.Junction != c.Block && c.Block != c.LIB && c.LIB < c.Block
		return forked, []string{"resolver=" + c.Resolver, fmt.Sprintf("final=%v", c.Block == c.LIB)}
	})
}

func TestC12CursorReplay(t *testing.T) { ev.Replay(t, "C12", "Cursor", checkC12Cursor) }
