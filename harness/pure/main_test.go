package pure

import (
	"os"
	"testing"

	"verif/ev"
)

func TestMain(m *testing.M) { ev.Main(m) }

func envOr(k, def string) string {
	if v := os.Getenv(k); v != "" {
		return v
	}
	return def
}
