package pure

import (
	"testing"

	"verif/ev"
)

func TestMain(m *testing.M) { ev.Main(m) }
