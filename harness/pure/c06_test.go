package pure

// C06 — a module's cache identity changes exactly when its computation can change.

import (
	"fmt"
	"github.com/streamingfast/bstream"
	"sort"
	"strings"
	"testing"
	"time"

	"github.com/streamingfast/substreams/manifest"
	"github.com/streamingfast/substreams/pipeline/exec"
	"pgregory.net/rapid"

	"verif/ev"
	"verif/gdsl"
	"verif/sdsl"
)

type c06Mutation struct {
	Module string `json:"module"` // mutated module
	What   string `json:"what"`   // which field
	Arg    string `json:"arg,omitempty"`
	Arg2   string `json:"arg2,omitempty"`
}

type c06Case struct {
	Graph    gdsl.Graph  `json:"graph"`
	Mutation c06Mutation `json:"mutation"`
	Mutated  gdsl.Graph  `json:"mutated"`  // the graph after the mutation (materialised so that the replay is exact)
	Identity string      `json:"identity"` // identity transformation applied to the original graph
	Renames  [][2]string `json:"renames,omitempty"`
	Extra    gdsl.Graph  `json:"extra,omitempty"` // unrelated modules/binaries added
	Perm     []int       `json:"perm,omitempty"`  // binary permutation
	Insert   []int       `json:"insert,omitempty"`
}

func hashes(g gdsl.Graph) (map[string]string, error) {
	pb := g.PB()
	mg, err := manifest.NewModuleGraph(pb.Modules)
	if err != nil {
		return nil, err
	}
	mh := manifest.NewModuleHashes()
	out := map[string]string{}
	for _, m := range pb.Modules {
		h, err := mh.HashModule(pb, m, mg)
		if err != nil {
			return nil, fmt.Errorf("hashing %s: %w", m.Name, err)
		}
		out[m.Name] = fmt.Sprintf("%x", []byte(h))
	}
	return out, nil
}

// hashesOtherOrder computes the same hashes asking for the modules in reverse order with a fresh cache,
// and through exec.NewOutputModuleGraph for every map module.
func hashesOtherViews(g gdsl.Graph, want map[string]string) *ev.Failure {
	pb := g.PB()
	mg, err := manifest.NewModuleGraph(pb.Modules)
	if err != nil {
		return ev.Failf("graph-error", "%v", err)
	}
	mh := manifest.NewModuleHashes()
	for i := len(pb.Modules) - 1; i >= 0; i-- {
		h, err := mh.HashModule(pb, pb.Modules[i], mg)
		if err != nil {
			return ev.Failf("hash-error", "%v", err)
		}
		if got := fmt.Sprintf("%x", []byte(h)); got != want[pb.Modules[i].Name] {
			return ev.Failf("nondeterministic/query-order", "module %s hashes to %s when queried in reverse order, %s in list order", pb.Modules[i].Name, got, want[pb.Modules[i].Name])
		}
	}
	// the identifier is a function of the module and its ancestors only: not of the chain's first streamable block,
	// a process-wide setting that differs between deployments (and between a tier1 and a chain-agnostic tier2)
	saved := bstream.GetProtocolFirstStreamableBlock
	for _, fsb := range []uint64{3, 1000} {
		bstream.GetProtocolFirstStreamableBlock = fsb
		mh2 := manifest.NewModuleHashes()
		for _, m := range pb.Modules {
			h, err := mh2.HashModule(pb, m, mg)
			if err != nil {
				bstream.GetProtocolFirstStreamableBlock = saved
				return ev.Failf("hash-error", "%v", err)
			}
			if got := fmt.Sprintf("%x", []byte(h)); got != want[m.Name] {
				bstream.GetProtocolFirstStreamableBlock = saved
				return ev.Failf("nondeterministic/first-streamable-block", "module %s (initial block %d) hashes to %s in a process whose first streamable block is %d, %s when it is 0", m.Name, m.InitialBlock, got, fsb, want[m.Name])
			}
		}
	}
	bstream.GetProtocolFirstStreamableBlock = saved
	for _, m := range g.Mods {
		if m.Kind != "map" {
			continue
		}
		eg, err := exec.NewOutputModuleGraph(m.Name, true, pb, 0)
		if err != nil {
			continue // not stageable (e.g. no input at initial block); hashing through the plain graph is still checked
		}
		for _, um := range eg.UsedModules() {
			if got := eg.ModuleHashes().Get(um.Name); got != want[um.Name] {
				return ev.Failf("nondeterministic/output-graph", "module %s hashes to %s in the graph of output %s, %s in the full graph", um.Name, got, m.Name, want[um.Name])
			}
		}
	}
	return nil
}

// mutate applies one single-field mutation of one module; ok=false when not applicable.
var c06Kinds = []string{"binary-content", "binary-type", "entrypoint", "initial-block", "kind", "input-add", "input-remove", "input-replace-ref",
	"input-params-value", "input-source-type", "input-swap", "input-store-mode", "filter-query", "filter-module", "filter-add", "filter-remove"}

// mutate picks the field first, then looks for a module it applies to (so that rare fields are not starved).
func mutate(t *rapid.T, g gdsl.Graph) (gdsl.Graph, c06Mutation, bool) {
	what := rapid.SampledFrom(c06Kinds).Draw(t, "mutation")
	order := rapid.Permutation(seq(len(g.Mods))).Draw(t, "modorder")
	for _, i := range order {
		if out, mut, ok := mutateModule(t, g, i, what); ok {
			return out, mut, true
		}
	}
	return g, c06Mutation{What: what}, false
}

func mutateModule(t *rapid.T, g gdsl.Graph, i int, what string) (gdsl.Graph, c06Mutation, bool) {
	out := g.Clone()
	m := &out.Mods[i]
	mut := c06Mutation{Module: m.Name, What: what}
	earlier := func(kind string) []string {
		var names []string
		for j := 0; j < i; j++ {
			if out.Mods[j].Kind == kind {
				names = append(names, out.Mods[j].Name)
			}
		}
		return names
	}
	hasInput := func(t_, ref string) bool {
		for _, in := range m.Inputs {
			if in.T == t_ && in.Ref == ref {
				return true
			}
		}
		return false
	}
	switch mut.What {
	case "binary-content":
		out.Bins = append(out.Bins, gdsl.Bin{Type: out.Bins[m.Binary].Type, Content: out.Bins[m.Binary].Content + sdsl.Bin(rapid.SampledFrom([]string{"!", " ", "\x00", "\n"}).Draw(t, "contentsuffix"))})
		m.Binary = uint32(len(out.Bins) - 1)
	case "binary-type":
		out.Bins = append(out.Bins, gdsl.Bin{Type: out.Bins[m.Binary].Type + "+wasm-bindgen-shims", Content: out.Bins[m.Binary].Content})
		m.Binary = uint32(len(out.Bins) - 1)
	case "entrypoint":
		m.Entry = m.Entry + rapid.SampledFrom([]string{"_v2", " ", "\n", "X"}).Draw(t, "entrysuffix")
	case "initial-block":
		m.Initial = m.Initial + rapid.Uint64Range(1, 1000).Draw(t, "delta")
	case "kind":
		// map <-> index keep every reference valid only if nobody references it; store <-> map needs the descendants' inputs rewritten
		from := m.Kind
		to := rapid.SampledFrom([]string{"map", "store", "index"}).Draw(t, "tokind")
		if to == from {
			return g, mut, false
		}
		mut.Arg = from + "->" + to
		m.Kind = to
		m.Policy, m.VType = "", ""
		if to == "store" {
			m.Policy, m.VType = "set", "string"
		}
		if to == "index" {
			m.Filter = nil
			var ins []gdsl.In
			for _, in := range m.Inputs {
				if in.T != "params" && in.T != "store" {
					ins = append(ins, in)
				}
			}
			if len(ins) == 0 {
				ins = []gdsl.In{{T: "source", Ref: gdsl.BlockType}}
			}
			m.Inputs = ins
		}
		// rewrite the references of the descendants so that the graph stays valid
		for j := range out.Mods {
			d := &out.Mods[j]
			for k := range d.Inputs {
				if d.Inputs[k].Ref == m.Name && (d.Inputs[k].T == "map" || d.Inputs[k].T == "store") {
					switch to {
					case "map":
						d.Inputs[k] = gdsl.In{T: "map", Ref: m.Name}
					case "store":
						d.Inputs[k] = gdsl.In{T: "store", Ref: m.Name, Mode: "get"}
					case "index":
						d.Inputs[k] = gdsl.In{T: "map", Ref: m.Name} // an index output can be read like a map's by hashing purposes
					}
				}
			}
			if d.Filter != nil && d.Filter.Module == m.Name && to != "index" {
				d.Filter = nil
				d.Inputs = append(d.Inputs, gdsl.In{T: map[string]string{"map": "map", "store": "store"}[to], Ref: m.Name, Mode: map[string]string{"map": "", "store": "get"}[to]})
			}
		}
	case "input-add":
		cands := []gdsl.In{{T: "source", Ref: gdsl.BlockType}, {T: "source", Ref: gdsl.ClockType}, {T: "source", Ref: "sf.other.v1.Block"}}
		for _, n := range earlier("map") {
			cands = append(cands, gdsl.In{T: "map", Ref: n})
		}
		if m.Kind != "index" {
			for _, n := range earlier("store") {
				cands = append(cands, gdsl.In{T: "store", Ref: n, Mode: "get"})
			}
		}
		in := cands[rapid.IntRange(0, len(cands)-1).Draw(t, "newinput")]
		if hasInput(in.T, in.Ref) {
			return g, mut, false
		}
		mut.Arg = in.T + ":" + in.Ref
		m.Inputs = append(m.Inputs, in)
	case "input-remove":
		if len(m.Inputs) < 2 {
			return g, mut, false
		}
		k := rapid.IntRange(0, len(m.Inputs)-1).Draw(t, "which")
		if m.Inputs[k].T == "params" && m.Filter != nil && m.Filter.FromParams {
			return g, mut, false
		}
		mut.Arg = fmt.Sprint(k)
		m.Inputs = append(append([]gdsl.In{}, m.Inputs[:k]...), m.Inputs[k+1:]...)
	case "input-replace-ref":
		var ks []int
		for k, in := range m.Inputs {
			if in.T == "map" || in.T == "store" {
				ks = append(ks, k)
			}
		}
		if len(ks) == 0 {
			return g, mut, false
		}
		k := ks[rapid.IntRange(0, len(ks)-1).Draw(t, "which")]
		cands := earlier(m.Inputs[k].T)
		var others []string
		for _, n := range cands {
			if n != m.Inputs[k].Ref && !hasInput(m.Inputs[k].T, n) {
				others = append(others, n)
			}
		}
		if len(others) == 0 {
			return g, mut, false
		}
		mut.Arg = m.Inputs[k].Ref
		m.Inputs[k].Ref = others[rapid.IntRange(0, len(others)-1).Draw(t, "newref")]
		mut.Arg2 = m.Inputs[k].Ref
	case "input-params-value":
		if len(m.Inputs) == 0 || m.Inputs[0].T != "params" {
			return g, mut, false
		}
		// any change of the value counts, including ones that differ only in blanks, case or a trailing newline
		v := m.Inputs[0].Value
		nv := rapid.SampledFrom([]string{v + " || k3", v + " ", v + "\n", " " + v, "\t" + v, v + "x", strings.ToUpper(v) + "_", v + v + "1", ""}).Draw(t, "newvalue")
		if nv == v {
			nv = v + "!"
		}
		m.Inputs[0].Value = nv
		mut.Arg, mut.Arg2 = v, nv
	case "input-source-type":
		var ks []int
		for k, in := range m.Inputs {
			if in.T == "source" {
				ks = append(ks, k)
			}
		}
		if len(ks) == 0 {
			return g, mut, false
		}
		k := ks[rapid.IntRange(0, len(ks)-1).Draw(t, "which")]
		nt := rapid.SampledFrom([]string{"sf.other.v1.Block", m.Inputs[k].Ref + " ", " " + m.Inputs[k].Ref, m.Inputs[k].Ref + "2", strings.ToLower(m.Inputs[k].Ref) + "x"}).Draw(t, "newsourcetype")
		if hasInput("source", nt) || nt == m.Inputs[k].Ref {
			return g, mut, false
		}
		mut.Arg, mut.Arg2 = m.Inputs[k].Ref, nt
		m.Inputs[k].Ref = nt
	case "input-swap":
		first := 0
		if len(m.Inputs) > 0 && m.Inputs[0].T == "params" {
			first = 1 // params must stay first
		}
		if len(m.Inputs)-first < 2 {
			return g, mut, false
		}
		a := rapid.IntRange(first, len(m.Inputs)-2).Draw(t, "a")
		b := rapid.IntRange(a+1, len(m.Inputs)-1).Draw(t, "b")
		m.Inputs[a], m.Inputs[b] = m.Inputs[b], m.Inputs[a]
		mut.Arg = fmt.Sprintf("%s<->%s", m.Inputs[a].T, m.Inputs[b].T)
	case "input-store-mode":
		var ks []int
		for k, in := range m.Inputs {
			if in.T == "store" {
				ks = append(ks, k)
			}
		}
		if len(ks) == 0 {
			return g, mut, false
		}
		k := ks[rapid.IntRange(0, len(ks)-1).Draw(t, "which")]
		if m.Inputs[k].Mode == "deltas" {
			m.Inputs[k].Mode = "get"
		} else {
			m.Inputs[k].Mode = "deltas"
		}
	case "filter-query":
		if m.Filter == nil || m.Filter.FromParams {
			return g, mut, false
		}
		m.Filter.Query = rapid.SampledFrom([]string{"(" + m.Filter.Query + ") || k9", m.Filter.Query + " ", " " + m.Filter.Query, m.Filter.Query + " k9"}).Draw(t, "newquery")
	case "filter-module":
		if m.Filter == nil {
			return g, mut, false
		}
		var others []string
		for _, n := range earlier("index") {
			if n != m.Filter.Module {
				others = append(others, n)
			}
		}
		if len(others) == 0 {
			return g, mut, false
		}
		m.Filter.Module = others[rapid.IntRange(0, len(others)-1).Draw(t, "newfilter")]
	case "filter-add":
		idx := earlier("index")
		if m.Filter != nil || m.Kind == "index" || len(idx) == 0 {
			return g, mut, false
		}
		m.Filter = &gdsl.Filter{Module: idx[rapid.IntRange(0, len(idx)-1).Draw(t, "newfilter")], Query: "k0"}
	case "filter-remove":
		if m.Filter == nil {
			return g, mut, false
		}
		m.Filter = nil
	}
	return out, mut, true
}

func genC06(t *rapid.T) c06Case {
	c := c06Case{Graph: gdsl.GenGraph(t, gdsl.Opts{MinMods: 3, MaxMods: 12, ParamsLikeNames: true})}
	for tries := 0; ; tries++ {
		mutated, mut, ok := mutate(t, c.Graph)
		if ok {
			c.Mutated, c.Mutation = mutated, mut
			break
		}
		if tries > 20 {
			// always applicable fallback
			g := c.Graph.Clone()
			g.Mods[0].Entry += "_v2"
			c.Mutated, c.Mutation = g, c06Mutation{Module: g.Mods[0].Name, What: "entrypoint"}
			break
		}
	}
	c.Identity = rapid.SampledFrom([]string{"rename", "add-unrelated", "permute-binaries", "all"}).Draw(t, "identity")
	if c.Identity == "rename" || c.Identity == "all" {
		for _, m := range c.Graph.Mods {
			if rapid.Bool().Draw(t, "rename") {
				c.Renames = append(c.Renames, [2]string{m.Name, rapid.SampledFrom([]string{"alias:", "x_", "pkg:sub:"}).Draw(t, "prefix") + m.Name})
			}
		}
	}
	if c.Identity == "add-unrelated" || c.Identity == "all" {
		n := rapid.IntRange(1, 3).Draw(t, "nextra")
		for i := 0; i < n; i++ {
			c.Extra.Mods = append(c.Extra.Mods, gdsl.Mod{Name: fmt.Sprintf("unrelated_%d", i), Kind: "map", Entry: fmt.Sprintf("unrelated_%d", i),
				Initial: rapid.Uint64Range(0, 50).Draw(t, "xinit"), Inputs: []gdsl.In{{T: "source", Ref: gdsl.BlockType}}})
			c.Insert = append(c.Insert, rapid.IntRange(0, len(c.Graph.Mods)).Draw(t, "insertat"))
		}
		c.Extra.Bins = []gdsl.Bin{{Type: "wasm/rust-v1", Content: "unrelated-code"}}
	}
	if c.Identity == "permute-binaries" || c.Identity == "all" {
		c.Perm = rapid.Permutation(seq(len(c.Graph.Bins))).Draw(t, "perm")
	}
	return c
}

func seq(n int) []int {
	out := make([]int, n)
	for i := range out {
		out[i] = i
	}
	return out
}

// applyIdentity builds the transformed graph and the name mapping old -> new.
func applyIdentity(c c06Case) (gdsl.Graph, map[string]string) {
	g := c.Graph.Clone()
	names := map[string]string{}
	for _, m := range g.Mods {
		names[m.Name] = m.Name
	}
	for _, r := range c.Renames {
		names[r[0]] = r[1]
	}
	for i := range g.Mods {
		m := &g.Mods[i]
		m.Name = names[m.Name]
		for k := range m.Inputs {
			if m.Inputs[k].T == "map" || m.Inputs[k].T == "store" {
				m.Inputs[k].Ref = names[m.Inputs[k].Ref]
			}
		}
		if m.Filter != nil {
			m.Filter.Module = names[m.Filter.Module]
		}
	}
	if len(c.Perm) == len(g.Bins) && len(c.Perm) > 0 {
		nb := make([]gdsl.Bin, len(g.Bins))
		newIndex := make([]uint32, len(g.Bins))
		for newPos, old := range c.Perm {
			nb[newPos] = g.Bins[old]
			newIndex[old] = uint32(newPos)
		}
		g.Bins = nb
		for i := range g.Mods {
			g.Mods[i].Binary = newIndex[g.Mods[i].Binary]
		}
	}
	if len(c.Extra.Mods) > 0 {
		g.Bins = append(g.Bins, c.Extra.Bins...)
		// insert at positions that keep the relative order of the existing modules
		type ins struct {
			at int
			m  gdsl.Mod
		}
		var inss []ins
		for i, m := range c.Extra.Mods {
			m.Binary = uint32(len(g.Bins) - 1)
			at := len(g.Mods)
			if i < len(c.Insert) {
				at = c.Insert[i]
			}
			inss = append(inss, ins{at, m})
		}
		sort.SliceStable(inss, func(i, j int) bool { return inss[i].at > inss[j].at })
		for _, in := range inss {
			at := in.at
			if at > len(g.Mods) {
				at = len(g.Mods)
			}
			g.Mods = append(g.Mods[:at], append([]gdsl.Mod{in.m}, g.Mods[at:]...)...)
		}
	}
	return g, names
}

func checkC06(c c06Case) *ev.Failure {
	return safely(func() *ev.Failure {
		base, err := hashes(c.Graph)
		if err != nil {
			return ev.Failf("hash-error/original", "original graph: %v", err)
		}
		// determinism: a second computation from scratch, after other packages were hashed in the same process, one of
		// them refused half-way (a module whose binary index is out of range): no computation leaves anything behind
		for _, at := range []int{0, len(c.Graph.Mods) - 1} {
			broken := c.Graph.Clone()
			broken.Mods[at].Binary = uint32(len(broken.Bins) + 3)
			if _, err := hashes(broken); err == nil {
				return ev.Failf("hash-error/out-of-range-binary-accepted", "module %s with binary index %d of %d is hashed without error", broken.Mods[at].Name, broken.Mods[at].Binary, len(broken.Bins))
			}
		}
		again, _ := hashes(c.Graph.Clone())
		for n, h := range base {
			if again[n] != h {
				return ev.Failf("nondeterministic/recompute", "module %s hashes to %s then %s", n, h, again[n])
			}
		}

		// identity transformations
		ig, names := applyIdentity(c)
		ih, err := hashes(ig)
		if err != nil {
			return ev.Failf("hash-error/identity", "graph after identity transformation %q: %v", c.Identity, err)
		}
		for old, h := range base {
			if ih[names[old]] != h {
				return ev.Failf("identity-changed/"+c.Identity, "identity transformation %q changed the identifier of %s (now %s): %s -> %s", c.Identity, old, names[old], h, ih[names[old]])
			}
		}

		// single-field mutation
		mh, err := hashes(c.Mutated)
		if err != nil {
			return ev.Failf("hash-error/mutated", "mutated graph (%+v): %v", c.Mutation, err)
		}
		mustChange := c.Mutated.Descendants(c.Mutation.Module)
		for n := range c.Graph.Descendants(c.Mutation.Module) { // descendants before the mutation lose/keep the ancestor: both sets are affected
			mustChange[n] = true
		}
		mustChange[c.Mutation.Module] = true
		mayChange := map[string]bool{}
		for n := range mustChange {
			mayChange[n] = true
		}
		if sameIdentityExchange(c, base) {
			// a reference was exchanged for one to a module with the SAME identifier (an identical twin): the
			// computation cannot change, so no identifier is required to change; the module and its descendants may
			// still change (the twin sits elsewhere in the ancestor list), nothing else may
			for n := range mustChange {
				delete(mustChange, n)
			}
			mustChange["<none>"] = true
			ev.Get("C06", "Hashes").Count("exchange-between-identical-twins", 1)
		}
		var unchanged, spurious []string
		for n, h := range base {
			after, ok := mh[n]
			if !ok {
				continue
			}
			if mustChange[n] && after == h {
				unchanged = append(unchanged, n)
			}
			if !mayChange[n] && after != h {
				spurious = append(spurious, n)
			}
		}
		sort.Strings(unchanged)
		sort.Strings(spurious)
		if len(spurious) > 0 {
			return ev.Failf("changed-unrelated/"+c.Mutation.What, "mutation %+v changed the identifier of modules that are neither it nor its descendants: %v", c.Mutation, spurious)
		}
		if len(unchanged) > 0 {
			sig := "unchanged/" + c.Mutation.What
			if c.Mutation.What == "input-swap" {
				sig += "/" + swapClass(c)
			}
			if c.Mutation.What == "input-replace-ref" && c.Graph.Ancestors(c.Mutation.Module)[c.Mutation.Arg2] && c.Mutated.Ancestors(c.Mutation.Module)[c.Mutation.Arg] {
				sig += "/ancestor-set-unchanged"
			}
			return ev.Failf(sig, "mutation %+v left the identifier unchanged for %v (must change for the module and all its descendants)", c.Mutation, unchanged)
		}
		// the other ways the identifiers are computed (last: the graph of an output module is built by code that
		// loops over the ancestors, see otherViewsBounded)
		return otherViewsBounded(c.Graph, base)
	})
}

// otherViewsBounded runs hashesOtherViews with a bound on its duration: building the graph of an output module
// is a computation of microseconds on these graphs, but one that loops until every ancestor is placed; when the
// module graph misses an edge it spins for ever, and the identifiers of that view never come. Thirty seconds
// without an answer are reported as that (no load makes microseconds into thirty seconds), instead of letting the
// whole run time out without a verdict.
func otherViewsBounded(g gdsl.Graph, base map[string]string) *ev.Failure {
	done := make(chan *ev.Failure, 1)
	go func() { done <- safely(func() *ev.Failure { return hashesOtherViews(g, base) }) }()
	select {
	case f := <-done:
		return f
	case <-time.After(30 * time.Second):
		return ev.Failf("no-identifier/output-graph-does-not-terminate", "computing the identifiers through the graph of an output module (exec.NewOutputModuleGraph) did not return within 30 s")
	}
}

// sameIdentityExchange: the mutation exchanged references to two modules whose identifiers are equal.
func sameIdentityExchange(c c06Case, base map[string]string) bool {
	i := c.Graph.Index(c.Mutation.Module)
	if i < 0 {
		return false
	}
	before, after := c.Graph.Mods[i], c.Mutated.Mods[c.Mutated.Index(c.Mutation.Module)]
	switch c.Mutation.What {
	case "input-replace-ref":
		return base[c.Mutation.Arg] != "" && base[c.Mutation.Arg] == base[c.Mutation.Arg2]
	case "filter-module":
		return before.Filter != nil && after.Filter != nil && base[before.Filter.Module] == base[after.Filter.Module]
	case "input-swap":
		if len(before.Inputs) != len(after.Inputs) {
			return false
		}
		for k := range before.Inputs {
			a, b := before.Inputs[k], after.Inputs[k]
			if a == b {
				continue
			}
			if a.T != b.T || a.Mode != b.Mode || (a.T != "map" && a.T != "store") || base[a.Ref] != base[b.Ref] {
				return false
			}
		}
		return true
	}
	return false
}

// swapClass says whether the two swapped inputs are of the same kind (both map / both store / both source...).
func swapClass(c c06Case) string {
	parts := strings.Split(c.Mutation.Arg, "<->")
	if len(parts) == 2 && parts[0] == parts[1] {
		if parts[0] == "map" || parts[0] == "store" {
			return "two-module-inputs-of-one-kind"
		}
		return "same-kind"
	}
	return "different-kinds"
}

func classifyC06(c c06Case) (bool, []string) {
	desc := c.Graph.Descendants(c.Mutation.Module)
	anc := c.Graph.Ancestors(c.Mutation.Module)
	unrelated := 0
	for _, m := range c.Graph.Mods {
		if m.Name != c.Mutation.Module && !desc[m.Name] && !anc[m.Name] {
			unrelated++
		}
	}
	return len(desc) >= 1 && unrelated >= 1, []string{"mutation=" + c.Mutation.What, "identity=" + c.Identity}
}

func TestC06(t *testing.T) {
	ev.Get("C06", "Hashes").Rule = "rapid: valid graphs of 3..12 modules and 1..3 binaries; one single-field mutation of one module (binary content/type via a private binary, entrypoint, kind with references rewritten, initial block, inputs add/remove/replace/params value/source type/swap/store mode, block filter add/remove/module/query) -> set of changed identifiers must equal {module} U descendants (harness reachability over inputs and block filters); identity transformations (consistent rename incl. alias prefixes, unrelated modules and binaries inserted anywhere without reordering, binary permutation with indexes rewritten) change nothing; recomputation, reverse query order and exec.NewOutputModuleGraph agree; non-trivial = mutated module has >=1 descendant and >=1 unrelated module"
	ev.Prop(t, "C06", "Hashes", genC06, checkC06, classifyC06)
}

func TestC06Replay(t *testing.T) { ev.Replay(t, "C06", "Hashes", checkC06) }

var _ = sdsl.Bin("")
