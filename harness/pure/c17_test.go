package pure

// C17 — malformed requests are rejected with an error, never with a crash or a hang.

import (
	"connectrpc.com/connect"
	"context"
	"errors"
	"fmt"
	"os"
	"runtime"
	"strings"
	"testing"
	"time"

	"github.com/streamingfast/bstream"
	"github.com/streamingfast/substreams/orchestrator/plan"
	pbssinternal "github.com/streamingfast/substreams/pb/sf/substreams/intern/v2"
	pbsubstreamsrpc "github.com/streamingfast/substreams/pb/sf/substreams/rpc/v2"
	pbsubstreams "github.com/streamingfast/substreams/pb/sf/substreams/v1"
	"github.com/streamingfast/substreams/pipeline"
	"github.com/streamingfast/substreams/pipeline/exec"
	"github.com/streamingfast/substreams/service"
	"google.golang.org/protobuf/proto"
	"google.golang.org/protobuf/reflect/protoreflect"
	"pgregory.net/rapid"

	"verif/ev"
	"verif/gdsl"
	"verif/sdsl"
)

// c17Case carries the request in protobuf wire form so that the replay is exact.
type c17Case struct {
	Tier2   bool     `json:"tier2"`
	Request sdsl.Bin `json:"request"` // proto-encoded pbsubstreamsrpc.Request or pbssinternal.ProcessRangeRequest
	Seg     uint64   `json:"seg"`
	Final   int64    `json:"final"`
	Text    string   `json:"text"` // prototext, for the reader only
}

var c17Names = []string{"a", "b", "map_1", "store_1", "idx", "", "bad name!", "x:y", "9lives", "a", "waytoolong_waytoolong_waytoolong_waytoolong_waytoolong_waytoolong_w"}
var c17Refs = []string{"a", "b", "map_1", "store_1", "idx", "", "ghost", "x:y"}

func genAnyModule(t *rapid.T, nbins int) *pbsubstreams.Module {
	m := &pbsubstreams.Module{Name: rapid.SampledFrom(c17Names).Draw(t, "name")}
	switch rapid.IntRange(0, 4).Draw(t, "kind") {
	case 0: // absent kind
	case 1:
		m.Kind = &pbsubstreams.Module_KindMap_{KindMap: &pbsubstreams.Module_KindMap{OutputType: rapid.SampledFrom([]string{"", "proto:x.Y"}).Draw(t, "otype")}}
	case 2:
		m.Kind = &pbsubstreams.Module_KindStore_{KindStore: &pbsubstreams.Module_KindStore{
			UpdatePolicy: pbsubstreams.Module_KindStore_UpdatePolicy(rapid.IntRange(0, 9).Draw(t, "policy")),
			ValueType:    rapid.SampledFrom([]string{"", "int64", "string", "weird"}).Draw(t, "vtype")}}
	case 3:
		m.Kind = &pbsubstreams.Module_KindBlockIndex_{KindBlockIndex: &pbsubstreams.Module_KindBlockIndex{OutputType: "proto:sf.substreams.index.v1.Keys"}}
	case 4:
		m.Kind = &pbsubstreams.Module_KindMap_{} // kind set, payload absent
	}
	m.BinaryIndex = rapid.SampledFrom([]uint32{0, 0, 1, uint32(nbins), uint32(nbins) + 1, 1 << 31, ^uint32(0)}).Draw(t, "binidx")
	m.BinaryEntrypoint = rapid.SampledFrom([]string{"", "entry"}).Draw(t, "entry")
	m.InitialBlock = rapid.SampledFrom([]uint64{0, 1, 5, 10, 1 << 40, ^uint64(0), ^uint64(0) - 1}).Draw(t, "initial")
	nin := rapid.IntRange(0, 4).Draw(t, "nin")
	for i := 0; i < nin; i++ {
		in := &pbsubstreams.Module_Input{}
		switch rapid.IntRange(0, 6).Draw(t, "intype") {
		case 0: // oneof absent
		case 1:
			in.Input = &pbsubstreams.Module_Input_Source_{Source: &pbsubstreams.Module_Input_Source{Type: rapid.SampledFrom([]string{"", gdsl.BlockType, gdsl.ClockType, "sf.other.Block"}).Draw(t, "srctype")}}
		case 2:
			in.Input = &pbsubstreams.Module_Input_Params_{Params: &pbsubstreams.Module_Input_Params{Value: rapid.SampledFrom([]string{"", "k0 || k1", "(((", "-x"}).Draw(t, "pvalue")}}
		case 3:
			in.Input = &pbsubstreams.Module_Input_Map_{Map: &pbsubstreams.Module_Input_Map{ModuleName: rapid.SampledFrom(c17Refs).Draw(t, "mapref")}}
		case 4:
			in.Input = &pbsubstreams.Module_Input_Store_{Store: &pbsubstreams.Module_Input_Store{ModuleName: rapid.SampledFrom(c17Refs).Draw(t, "storeref"),
				Mode: pbsubstreams.Module_Input_Store_Mode(rapid.SampledFrom([]int32{0, 1, 2, 99}).Draw(t, "mode"))}}
		case 5:
			in.Input = &pbsubstreams.Module_Input_Map_{} // oneof set, payload absent
		case 6:
			in.Input = &pbsubstreams.Module_Input_Store_{}
		}
		m.Inputs = append(m.Inputs, in)
	}
	switch rapid.IntRange(0, 5).Draw(t, "filter") {
	case 0, 1, 2:
	case 3:
		m.BlockFilter = &pbsubstreams.Module_BlockFilter{Module: rapid.SampledFrom(c17Refs).Draw(t, "filtermod"), Query: &pbsubstreams.Module_BlockFilter_QueryString{QueryString: rapid.SampledFrom([]string{"", "k0", "(((", "a || b"}).Draw(t, "q")}}
	case 4:
		m.BlockFilter = &pbsubstreams.Module_BlockFilter{Module: rapid.SampledFrom(c17Refs).Draw(t, "filtermod"), Query: &pbsubstreams.Module_BlockFilter_QueryFromParams{QueryFromParams: &pbsubstreams.Module_QueryFromParams{}}}
	case 5:
		m.BlockFilter = &pbsubstreams.Module_BlockFilter{Module: rapid.SampledFrom(c17Refs).Draw(t, "filtermod")} // query absent
	}
	if rapid.Bool().Draw(t, "hasoutput") {
		m.Output = &pbsubstreams.Module_Output{Type: rapid.SampledFrom([]string{"", "proto:x.Y"}).Draw(t, "outtype")}
	}
	return m
}

func genAnyModules(t *rapid.T) *pbsubstreams.Modules {
	if rapid.IntRange(0, 30).Draw(t, "nilmodules") == 0 {
		return nil
	}
	out := &pbsubstreams.Modules{}
	nb := rapid.IntRange(0, 3).Draw(t, "nbins")
	for i := 0; i < nb; i++ {
		out.Binaries = append(out.Binaries, &pbsubstreams.Binary{
			Type:    rapid.SampledFrom([]string{"wasm/rust-v1", "wasm/rust-v1", "", "unknown/type", "wasm/rust-v1+ext=1", "wasm/rust-v1+=", "wasip1/tinygo-v1"}).Draw(t, "bintype"),
			Content: []byte(rapid.SampledFrom([]string{"", "code"}).Draw(t, "bincontent"))})
	}
	n := rapid.IntRange(0, 7).Draw(t, "nmods")
	for i := 0; i < n; i++ {
		out.Modules = append(out.Modules, genAnyModule(t, nb))
	}
	return out
}

// genBrokenValid starts from a valid generated graph and breaks one thing.
func genBrokenValid(t *rapid.T) *pbsubstreams.Modules {
	g := gdsl.GenGraph(t, gdsl.Opts{MinMods: 1, MaxMods: 8, AllowInvalidInit: true})
	pb := g.PB()
	i := rapid.IntRange(0, len(pb.Modules)-1).Draw(t, "victim")
	m := pb.Modules[i]
	switch rapid.IntRange(0, 23).Draw(t, "break") { // 18..23: nothing broken, the request fields do the work
	case 0:
		m.Kind = nil
	case 1:
		m.BinaryIndex = uint32(len(pb.Binaries)) + uint32(rapid.IntRange(0, 3).Draw(t, "over"))
	case 2:
		if len(m.Inputs) > 0 {
			m.Inputs[rapid.IntRange(0, len(m.Inputs)-1).Draw(t, "which")].Input = nil
		}
	case 3:
		m.Inputs = append(m.Inputs, &pbsubstreams.Module_Input{Input: &pbsubstreams.Module_Input_Map_{Map: &pbsubstreams.Module_Input_Map{ModuleName: m.Name}}}) // self reference
	case 4:
		j := rapid.IntRange(0, len(pb.Modules)-1).Draw(t, "later")
		pb.Modules[0].Inputs = append(pb.Modules[0].Inputs, &pbsubstreams.Module_Input{Input: &pbsubstreams.Module_Input_Map_{Map: &pbsubstreams.Module_Input_Map{ModuleName: pb.Modules[j].Name}}}) // possible cycle
	case 5:
		m.Name = pb.Modules[rapid.IntRange(0, len(pb.Modules)-1).Draw(t, "dup")].Name // duplicate name
	case 6:
		m.BlockFilter = &pbsubstreams.Module_BlockFilter{Module: m.Name, Query: &pbsubstreams.Module_BlockFilter_QueryString{QueryString: "k0"}}
	case 7:
		m.BlockFilter = &pbsubstreams.Module_BlockFilter{Module: pb.Modules[rapid.IntRange(0, len(pb.Modules)-1).Draw(t, "fm")].Name}
	case 8:
		m.InitialBlock = ^uint64(0)
	case 9:
		pb.Binaries = nil
	case 10:
		m.Inputs = nil
	case 11:
		m.Name = ""
	case 12:
		if len(m.Inputs) > 0 {
			m.Inputs[0] = &pbsubstreams.Module_Input{Input: &pbsubstreams.Module_Input_Store_{Store: &pbsubstreams.Module_Input_Store{ModuleName: "ghost"}}}
		}
	case 13: // filter on a real index module (when there is one), query taken from params the module may not have
		target := pb.Modules[rapid.IntRange(0, len(pb.Modules)-1).Draw(t, "fm")].Name
		var idx []string
		for _, o := range pb.Modules {
			if o.GetKindBlockIndex() != nil && o.Name != m.Name {
				idx = append(idx, o.Name)
			}
		}
		if len(idx) > 0 {
			target = rapid.SampledFrom(idx).Draw(t, "fidx")
		}
		m.BlockFilter = &pbsubstreams.Module_BlockFilter{Module: target, Query: &pbsubstreams.Module_BlockFilter_QueryFromParams{QueryFromParams: &pbsubstreams.Module_QueryFromParams{}}}
	case 14: // the params input disappears, whatever refers to it stays
		var kept []*pbsubstreams.Module_Input
		for _, in := range m.Inputs {
			if in.GetParams() == nil {
				kept = append(kept, in)
			}
		}
		m.Inputs = kept
		if m.BlockFilter != nil && rapid.Bool().Draw(t, "fromparams") {
			m.BlockFilter.Query = &pbsubstreams.Module_BlockFilter_QueryFromParams{QueryFromParams: &pbsubstreams.Module_QueryFromParams{}}
		}
	case 15: // inputs rotated: params no longer first
		if len(m.Inputs) > 1 {
			m.Inputs = append(m.Inputs[1:], m.Inputs[0])
		}
	case 17: // a block filter that names no module
		m.BlockFilter = &pbsubstreams.Module_BlockFilter{Module: "", Query: &pbsubstreams.Module_BlockFilter_QueryString{QueryString: rapid.SampledFrom([]string{"k0", ""}).Draw(t, "emptyfq")}}
	case 16: // a second params input
		m.Inputs = append(m.Inputs, &pbsubstreams.Module_Input{Input: &pbsubstreams.Module_Input_Params_{Params: &pbsubstreams.Module_Input_Params{Value: "k0"}}})
	}
	return pb
}

func genC17(t *rapid.T) c17Case {
	var mods *pbsubstreams.Modules
	if rapid.IntRange(0, 3).Draw(t, "fromvalid") > 0 {
		mods = genBrokenValid(t)
	} else {
		mods = genAnyModules(t)
	}
	if rapid.IntRange(0, 39).Draw(t, "deepchain") == 0 {
		// a long dependency chain (every module reads the previous one; sometimes the one before too): whatever
		// is computed per module with its ancestors must stay polynomial
		n := rapid.IntRange(20, 95).Draw(t, "chainlen")
		g := gdsl.Graph{Bins: []gdsl.Bin{{Type: "wasm/rust-v1", Content: "code"}}}
		for i := 0; i < n; i++ {
			m := gdsl.Mod{Name: fmt.Sprintf("m%d", i), Kind: "map", Entry: fmt.Sprintf("m%d", i)}
			if i == 0 {
				m.Inputs = []gdsl.In{{T: "source", Ref: gdsl.BlockType}}
			} else {
				m.Inputs = []gdsl.In{{T: "map", Ref: fmt.Sprintf("m%d", i-1)}}
				if i > 1 && i%3 == 0 {
					m.Inputs = append(m.Inputs, gdsl.In{T: "map", Ref: fmt.Sprintf("m%d", i-2)})
				}
			}
			g.Mods = append(g.Mods, m)
		}
		mods = g.PB()
	}
	names := []string{"", "ghost", "a"}
	if mods != nil {
		for _, m := range mods.Modules {
			names = append(names, m.Name)
		}
	}
	out := rapid.SampledFrom(names).Draw(t, "output")
	if mods != nil && rapid.IntRange(0, 3).Draw(t, "mapoutput") > 0 {
		var maps []string
		for _, m := range mods.Modules {
			if m.GetKindMap() != nil {
				maps = append(maps, m.Name)
			}
		}
		if len(maps) > 0 {
			out = rapid.SampledFrom(maps).Draw(t, "outputmap")
		}
	}
	c := c17Case{Tier2: rapid.IntRange(0, 3).Draw(t, "tier2") == 0, Seg: rapid.SampledFrom([]uint64{1, 2, 10, 1000}).Draw(t, "seg")}
	c.Final = rapid.SampledFrom([]int64{-1, 0, 25, 1 << 40}).Draw(t, "final")
	var msg proto.Message
	if c.Tier2 {
		msg = &pbssinternal.ProcessRangeRequest{
			Modules: mods, OutputModule: out,
			Stage:                0,
			MeteringConfig:       mostly(t, "metering", "null://", ""),
			BlockType:            mostly(t, "blocktype", gdsl.BlockType, ""),
			StateStore:           mostly(t, "statestore", "file:///nonexistent", ""),
			MergedBlocksStore:    mostly(t, "mbstore", "file:///nonexistent", ""),
			SegmentSize:          mostly(t, "segsize", uint64(10), 0, 1, ^uint64(0)),
			SegmentNumber:        mostly(t, "segnum", uint64(1), 0, 7, ^uint64(0)),
			FirstStreamableBlock: mostly(t, "fsb", uint64(0), 1, 100),
			StopBlockNum:         mostly(t, "oldstop", uint64(0), 5),
		}
	} else {
		req := &pbsubstreamsrpc.Request{
			Modules: mods, OutputModule: out,
			StartBlockNum:  rapid.SampledFrom([]int64{0, 1, 10, 25, -1, -5000, 1 << 62, -(1 << 63)}).Draw(t, "start"),
			StopBlockNum:   rapid.SampledFrom([]uint64{0, 1, 10, 25, 26, 1 << 63, ^uint64(0)}).Draw(t, "stop"),
			ProductionMode: rapid.Bool().Draw(t, "prod"),
		}
		switch rapid.IntRange(0, 5).Draw(t, "cursor") {
		case 0:
			req.StartCursor = "garbage"
		case 1:
			req.StartCursor = (&bstream.Cursor{Step: bstream.StepNew, Block: ref(12, "b"), LIB: ref(10, "b"), HeadBlock: ref(13, "b")}).ToOpaque()
		case 2:
			req.StartCursor = (&bstream.Cursor{Step: bstream.StepNewIrreversible, Block: ref(12, "b"), LIB: ref(12, "b"), HeadBlock: ref(12, "b")}).ToOpaque()
		}
		if rapid.IntRange(0, 4).Draw(t, "snapshots") == 0 {
			req.DebugInitialStoreSnapshotForModules = []string{rapid.SampledFrom(names).Draw(t, "snapmod")}
		}
		msg = req
	}
	// generic structure-aware mutation: any field of any (nested) message of the request, whatever the hand-written
	// breaks above thought of
	for n := rapid.SampledFrom([]int{0, 0, 1, 1, 2}).Draw(t, "nreflect"); n > 0; n-- {
		mutateAnyField(t, msg.ProtoReflect(), names)
	}
	b, err := proto.Marshal(msg)
	if err != nil {
		// invalid UTF-8 cannot happen with this generator; keep the case judgeable anyway
		b = nil
	}
	c.Request = sdsl.Bin(b)
	c.Text = fmt.Sprint(msg)
	if len(c.Text) > 1500 {
		c.Text = c.Text[:1500] + "..."
	}
	return c
}

// mostly draws good 6 times out of 7, otherwise one of the bad values.
func mostly[T any](t *rapid.T, label string, good T, bad ...T) T {
	if rapid.IntRange(0, 6).Draw(t, label+"?") > 0 {
		return good
	}
	return rapid.SampledFrom(bad).Draw(t, label)
}

type c17Outcome struct {
	step    string // step that rejected, or "accepted"
	modules int
}

// runC17 executes the server's sequence; each step only if the previous accepted.
func runC17(c c17Case) (out c17Outcome, f *ev.Failure) {
	step := "decode"
	defer func() {
		if r := recover(); r != nil {
			buf := make([]byte, 4096)
			buf = buf[:runtime.Stack(buf, false)]
			f = ev.Failf("panic/"+step, "panic in %s: %v\n%s", step, r, buf)
		}
	}()
	if c.Tier2 {
		req := &pbssinternal.ProcessRangeRequest{}
		if err := proto.Unmarshal([]byte(c.Request), req); err != nil {
			return c17Outcome{step: "decode"}, nil
		}
		if req.Modules == nil { // ProcessRange returns invalid-argument before validating
			return c17Outcome{step: "nil-modules"}, nil
		}
		out.modules = len(req.Modules.Modules)
		step = "ValidateTier2Request"
		if err := service.ValidateTier2Request(req); err != nil {
			out.step = step
			return
		}
		step = "NewOutputModuleGraph"
		eg, err := exec.NewOutputModuleGraph(req.OutputModule, true, req.Modules, req.FirstStreamableBlock)
		if err != nil {
			out.step = step
			return
		}
		step = "BuildRequestDetailsFromSubrequest"
		rd := pipeline.BuildRequestDetailsFromSubrequest(req)
		_ = rd
		step = "graph-accessors"
		_ = eg.ModuleHashes().Get(req.OutputModule)
		_ = eg.UsedModulesUpToStage(0)
		out.step = "accepted"
		return
	}
	req := &pbsubstreamsrpc.Request{}
	if err := proto.Unmarshal([]byte(c.Request), req); err != nil {
		return c17Outcome{step: "decode"}, nil
	}
	if req.Modules == nil { // Blocks returns invalid-argument before validating
		return c17Outcome{step: "nil-modules"}, nil
	}
	out.modules = len(req.Modules.Modules)
	step = "ValidateTier1Request"
	if err := service.ValidateTier1Request(req, gdsl.BlockType); err != nil {
		out.step = step
		return
	}
	step = "NewOutputModuleGraph"
	eg, err := exec.NewOutputModuleGraph(req.OutputModule, req.ProductionMode, req.Modules, bstream.GetProtocolFirstStreamableBlock)
	if err != nil {
		out.step = step
		return
	}
	_ = eg.ModuleHashes().Get(req.OutputModule)
	// start block normalisation of Tier1Service.blocks
	if req.StartBlockNum == 0 {
		req.StartBlockNum = int64(bstream.GetProtocolFirstStreamableBlock)
	}
	step = "BuildRequestDetails"
	final := func() (uint64, error) {
		if c.Final < 0 {
			return 0, errors.New("unknown")
		}
		return uint64(c.Final), nil
	}
	resolver := func(ctx context.Context, cur *bstream.Cursor) (bstream.BlockRef, bstream.BlockRef, error) {
		return ref(11, "j"), ref(20, "h"), nil
	}
	rd, _, err := pipeline.BuildRequestDetails(context.Background(), req, final, resolver, func() (uint64, error) { return 30, nil }, c.Seg)
	if err != nil {
		out.step = step
		// the code the client receives: the error as Tier1Service.blocks wraps it, through the service's own mapping;
		// a rejection caused by the request (not by the environment: no final or head block known) is invalid-argument
		if msg := err.Error(); !strings.Contains(msg, "recent finalized block") && !strings.Contains(msg, "resolving negative start block") {
			mapped := service.VerifToConnectError(context.Background(), fmt.Errorf("build request details: %w", err))
			if code := connect.CodeOf(mapped); code != connect.CodeInvalidArgument {
				f = ev.Failf("reject/wrong-code/BuildRequestDetails", "the request is rejected with code %v instead of invalid_argument: %v", code, mapped)
			}
		}
		return
	}
	if rd.ResolvedStartBlockNum == req.StopBlockNum && req.StopBlockNum != 0 {
		out.step = "start==stop"
		return
	}
	step = "ValidateRequestStartBlock"
	if err := eg.ValidateRequestStartBlock(rd.ResolvedStartBlockNum); err != nil {
		out.step = step
		return
	}
	step = "BuildTier1RequestPlan"
	scheduleStores := eg.StagedUsedModules()[0].LastLayer().IsStoreLayer()
	var lowestStores uint64
	if scheduleStores {
		lowestStores = *eg.LowestStoresInitBlock()
	}
	if _, err := plan.BuildTier1RequestPlan(rd.ProductionMode, c.Seg, eg.LowestInitBlock(), lowestStores, rd.ResolvedStartBlockNum, rd.LinearHandoffBlockNum, rd.StopBlockNum, scheduleStores); err != nil {
		out.step = step
		mapped := service.VerifToConnectError(context.Background(), fmt.Errorf("error building request plan: %w", err))
		ev.Get("C17", "Requests").Count("plan-rejection-code="+connect.CodeOf(mapped).String(), 1)
		if os.Getenv("VERIF_C17_PLANCODE") != "" && connect.CodeOf(mapped) != connect.CodeInvalidArgument {
			f = ev.Failf("reject/wrong-code/BuildTier1RequestPlan", "rejected with %v: %v (start %d stop %d prod %v resolved start %d hand-off %d lowest init %d)", connect.CodeOf(mapped), mapped, req.StartBlockNum, req.StopBlockNum, req.ProductionMode, rd.ResolvedStartBlockNum, rd.LinearHandoffBlockNum, eg.LowestInitBlock())
		}
		return
	}
	out.step = "accepted"
	return
}

// judgeC17 runs the request once under a watchdog and returns the failure (if any) and the outcome.
func judgeC17(c c17Case) (*ev.Failure, c17Outcome) {
	var before, after runtime.MemStats
	runtime.ReadMemStats(&before)
	type res struct {
		o c17Outcome
		f *ev.Failure
	}
	ch := make(chan res, 1)
	go func() {
		o, f := runC17(c)
		ch <- res{o, f}
	}()
	var r res
	select {
	case r = <-ch:
	case <-time.After(10 * time.Second):
		return ev.Failf("hang", "request handling did not return within 10s"), c17Outcome{step: "hang"}
	}
	if r.f != nil {
		return r.f, r.o
	}
	runtime.ReadMemStats(&after)
	if grown := after.TotalAlloc - before.TotalAlloc; grown > 256<<20 {
		return ev.Failf("alloc/"+r.o.step, "handling the request allocated %d MiB (outcome %s)", grown>>20, r.o.step), r.o
	}
	return nil, r.o
}

func checkC17(c c17Case) *ev.Failure {
	f, _ := judgeC17(c)
	return f
}

func TestC17(t *testing.T) {
	ev.Get("C17", "Requests").Rule = "rapid, structure-aware: tier1 Request / tier2 ProcessRangeRequest with every field of every module free (absent kinds and oneofs, dangling/self/cyclic references, duplicate and empty names, out-of-range and huge binary indexes, filters on non-index modules, huge initial blocks, arbitrary start/stop/cursor) or a valid generated graph with one field broken; on top of either, 0..2 generic mutations of any field of any nested message (protobuf reflection: empty, boundary numbers, names of the request, out-of-range enums, cleared or empty sub-messages, truncated or duplicated list elements); the server's sequence ValidateTier{1,2}Request -> exec.NewOutputModuleGraph -> BuildRequestDetails -> BuildTier1RequestPlan, each only if the previous accepted, must return without panic within 10 s and < 256 MiB allocated, and a request-caused rejection of BuildRequestDetails must map to invalid_argument through the service's own error mapping; non-trivial = rejected by a step after the first, or accepted with >= 3 modules; outcome histogram under counters"
	r := ev.Get("C17", "Requests")
	rapid.Check(t, func(rt *rapid.T) {
		c := genC17(rt)
		f, o := judgeC17(c) // the request is handled exactly once (a hanging request must not be run again to classify it)
		r.Count("outcome:"+o.step, 1)
		first := o.step == "ValidateTier1Request" || o.step == "ValidateTier2Request" || o.step == "decode" || o.step == "nil-modules" || o.step == ""
		nt := (!first && o.step != "accepted") || (o.step == "accepted" && o.modules >= 3)
		tier := "tier1"
		if c.Tier2 {
			tier = "tier2"
		}
		r.Case(c, nt, tier)
		r.Report(rt, c, f)
	})
}

func TestC17Replay(t *testing.T) { ev.Replay(t, "C17", "Requests", checkC17) }

// mutateAnyField picks one field of one message of the tree rooted at m (uniformly over the populated messages)
// and gives it another value: empty, a boundary, a name of the request, a duplicate, or nothing at all.
func mutateAnyField(t *rapid.T, root protoreflect.Message, names []string) {
	var msgs []protoreflect.Message
	var walk func(m protoreflect.Message)
	walk = func(m protoreflect.Message) {
		if !m.IsValid() {
			return // a oneof member that is selected with a nil payload: nothing to mutate in it
		}
		msgs = append(msgs, m)
		m.Range(func(fd protoreflect.FieldDescriptor, v protoreflect.Value) bool {
			switch {
			case fd.IsList() && fd.Message() != nil:
				for i := 0; i < v.List().Len(); i++ {
					walk(v.List().Get(i).Message())
				}
			case fd.IsMap():
			case fd.Message() != nil:
				walk(v.Message())
			}
			return true
		})
	}
	walk(root)
	if len(msgs) == 0 {
		return
	}
	m := msgs[rapid.IntRange(0, len(msgs)-1).Draw(t, "rmsg")]
	fds := m.Descriptor().Fields()
	if fds.Len() == 0 {
		return
	}
	fd := fds.Get(rapid.IntRange(0, fds.Len()-1).Draw(t, "rfield"))
	if fd.IsMap() {
		return
	}
	if fd.IsList() {
		l := m.Mutable(fd).List()
		switch rapid.IntRange(0, 2).Draw(t, "rlist") {
		case 0:
			l.Truncate(0)
		case 1:
			if l.Len() > 0 {
				l.Truncate(l.Len() - 1)
			}
		default:
			if l.Len() > 0 { // duplicate an element
				e := l.Get(rapid.IntRange(0, l.Len()-1).Draw(t, "rdup"))
				if fd.Message() != nil {
					l.Append(protoreflect.ValueOfMessage(proto.Clone(e.Message().Interface()).ProtoReflect()))
				} else {
					l.Append(e)
				}
			}
		}
		return
	}
	switch fd.Kind() {
	case protoreflect.StringKind:
		m.Set(fd, protoreflect.ValueOfString(rapid.SampledFrom(append([]string{"", "ghost", "a:b", " "}, names...)).Draw(t, "rstr")))
	case protoreflect.BytesKind:
		m.Set(fd, protoreflect.ValueOfBytes([]byte(rapid.SampledFrom([]string{"", "x"}).Draw(t, "rbytes"))))
	case protoreflect.BoolKind:
		m.Set(fd, protoreflect.ValueOfBool(!m.Get(fd).Bool()))
	case protoreflect.Uint64Kind, protoreflect.Fixed64Kind:
		m.Set(fd, protoreflect.ValueOfUint64(rapid.SampledFrom([]uint64{0, 1, 2, 1 << 32, 1<<63 - 1, 1 << 63, ^uint64(0)}).Draw(t, "ru64")))
	case protoreflect.Uint32Kind, protoreflect.Fixed32Kind:
		m.Set(fd, protoreflect.ValueOfUint32(rapid.SampledFrom([]uint32{0, 1, 2, 1 << 31, ^uint32(0)}).Draw(t, "ru32")))
	case protoreflect.Int64Kind, protoreflect.Sint64Kind, protoreflect.Sfixed64Kind:
		m.Set(fd, protoreflect.ValueOfInt64(rapid.SampledFrom([]int64{0, 1, -1, 1<<63 - 1, -(1 << 63)}).Draw(t, "ri64")))
	case protoreflect.Int32Kind, protoreflect.Sint32Kind, protoreflect.Sfixed32Kind:
		m.Set(fd, protoreflect.ValueOfInt32(rapid.SampledFrom([]int32{0, 1, -1, 1<<31 - 1, -(1 << 31)}).Draw(t, "ri32")))
	case protoreflect.EnumKind:
		m.Set(fd, protoreflect.ValueOfEnum(protoreflect.EnumNumber(rapid.SampledFrom([]int32{0, 1, 2, 7, 99, -1}).Draw(t, "renum"))))
	case protoreflect.MessageKind, protoreflect.GroupKind:
		if rapid.Bool().Draw(t, "rclear") {
			m.Clear(fd) // also switches a oneof off
		} else {
			m.Set(fd, protoreflect.ValueOfMessage(m.NewField(fd).Message())) // present but empty (selects this member of a oneof)
		}
	}
}
