package pure

// C15 (evaluators) — the bitmap evaluation of a block filter selects exactly
// the blocks on which the per-block evaluation is true.

import (
	"context"
	"fmt"
	"sort"
	"strings"
	"testing"

	"github.com/RoaringBitmap/roaring/roaring64"
	pbindex "github.com/streamingfast/substreams/pb/sf/substreams/index/v1"
	"github.com/streamingfast/substreams/sqe"
	"github.com/streamingfast/substreams/storage/index"
	"google.golang.org/protobuf/proto"
	"pgregory.net/rapid"

	"verif/ev"
	"verif/sdsl"
)

// qnode is the harness' own AST.
type qnode struct {
	Op    string   `json:"op"`              // key, and, or, paren
	Key   sdsl.Bin `json:"key,omitempty"`   // key
	Quote string   `json:"quote,omitempty"` // "", "'", "\""
	Impl  bool     `json:"impl,omitempty"`  // and: implicit (space) instead of &&
	Kids  []qnode  `json:"kids,omitempty"`
	Pad   []string `json:"pad,omitempty"` // random spacing used by the renderer
}

var bareKeys = []string{"k0", "k1", "k2", "k3", "absent", "evt:transfer", "a-b", "x|y", "a&b", "0xdeadbeef", "ké", "or", "and", "a||b"}
var quotedKeys = []string{"k0", "k 1", "with space", "a || b", "(paren)", "-dash", "&& and", "k3", "tab\there", "absent key"}

func genQNode(t *rapid.T, depth int) qnode {
	if depth <= 0 || rapid.IntRange(0, 3).Draw(t, "leaf") == 0 {
		if rapid.IntRange(0, 2).Draw(t, "quoted") == 0 {
			return qnode{Op: "key", Key: sdsl.Bin(rapid.SampledFrom(quotedKeys).Draw(t, "qkey")), Quote: rapid.SampledFrom([]string{"'", "\""}).Draw(t, "quote")}
		}
		return qnode{Op: "key", Key: sdsl.Bin(rapid.SampledFrom(bareKeys).Draw(t, "key"))}
	}
	pad := func() string { return rapid.SampledFrom([]string{" ", " ", "  ", "\t", " \n "}).Draw(t, "pad") }
	switch rapid.IntRange(0, 4).Draw(t, "op") {
	case 0:
		return qnode{Op: "paren", Kids: []qnode{genQNode(t, depth-1)}, Pad: []string{rapid.SampledFrom([]string{"", " "}).Draw(t, "p0"), rapid.SampledFrom([]string{"", " "}).Draw(t, "p1")}}
	case 1, 2:
		n := rapid.IntRange(2, 3).Draw(t, "nkids")
		node := qnode{Op: "and", Impl: rapid.Bool().Draw(t, "implicit")}
		for i := 0; i < n; i++ {
			node.Kids = append(node.Kids, genQNode(t, depth-1))
			node.Pad = append(node.Pad, pad(), pad())
		}
		return node
	default:
		n := rapid.IntRange(2, 3).Draw(t, "nkids")
		node := qnode{Op: "or"}
		for i := 0; i < n; i++ {
			node.Kids = append(node.Kids, genQNode(t, depth-1))
			node.Pad = append(node.Pad, pad(), pad())
		}
		return node
	}
}

// render writes the expression fully parenthesised wherever operators of different kinds nest, so that its
// meaning does not depend on a precedence rule.
func (q qnode) render() string {
	switch q.Op {
	case "key":
		return q.Quote + string(q.Key) + q.Quote
	case "paren":
		return "(" + q.Pad[0] + q.Kids[0].render() + q.Pad[1] + ")"
	}
	var sb strings.Builder
	for i, k := range q.Kids {
		if i > 0 {
			switch {
			case q.Op == "or":
				sb.WriteString(q.Pad[2*i] + "||" + q.Pad[2*i+1])
			case q.Impl:
				sb.WriteString(q.Pad[2*i])
			default:
				sb.WriteString(q.Pad[2*i] + "&&" + q.Pad[2*i+1])
			}
		}
		s := k.render()
		if k.Op == "and" || k.Op == "or" {
			s = "(" + s + ")"
		}
		sb.WriteString(s)
	}
	return sb.String()
}

func (q qnode) eval(keys map[string]bool) bool {
	switch q.Op {
	case "key":
		return keys[string(q.Key)]
	case "paren":
		return q.Kids[0].eval(keys)
	case "and":
		for _, k := range q.Kids {
			if !k.eval(keys) {
				return false
			}
		}
		return true
	default:
		for _, k := range q.Kids {
			if k.eval(keys) {
				return true
			}
		}
		return false
	}
}

func (q qnode) shape() (hasOrUnderAnd, hasAndUnderOr bool, keys map[string]bool) {
	keys = map[string]bool{}
	var walk func(n qnode, underAnd, underOr bool)
	walk = func(n qnode, underAnd, underOr bool) {
		switch n.Op {
		case "key":
			keys[string(n.Key)] = true
		case "and":
			if underOr {
				hasAndUnderOr = true
			}
			for _, k := range n.Kids {
				walk(k, true, underOr)
			}
		case "or":
			if underAnd {
				hasOrUnderAnd = true
			}
			for _, k := range n.Kids {
				walk(k, underAnd, true)
			}
		default:
			for _, k := range n.Kids {
				walk(k, underAnd, underOr)
			}
		}
	}
	walk(q, false, false)
	return
}

type c15Case struct {
	Expr   qnode      `json:"expr"`
	Expr2  qnode      `json:"expr2"`  // a second expression evaluated over the same bitmaps
	Base   uint64     `json:"base"`   // first block of the segment
	Blocks [][]string `json:"blocks"` // keys of each block of the segment (JSON-safe: keys are valid UTF-8)
	Minus  bool       `json:"minus"`  // also check that the expression with a '-' operator is rejected
}

func genC15(t *rapid.T) c15Case {
	c := c15Case{Expr: genQNode(t, 3), Expr2: genQNode(t, 2)}
	c.Base = rapid.SampledFrom([]uint64{0, 1, 10, 1000, 1 << 33}).Draw(t, "base")
	n := rapid.IntRange(1, 64).Draw(t, "nblocks")
	all := append(append([]string{}, bareKeys...), quotedKeys...)
	// keys that never appear in any block
	absent := map[string]bool{"absent": true, "absent key": true}
	if rapid.Bool().Draw(t, "moreabsent") {
		absent[rapid.SampledFrom(all).Draw(t, "absentkey")] = true
	}
	for i := 0; i < n; i++ {
		var ks []string
		if rapid.IntRange(0, 4).Draw(t, "emptyblock") > 0 {
			m := rapid.IntRange(1, 5).Draw(t, "nkeys")
			for j := 0; j < m; j++ {
				k := rapid.SampledFrom(all).Draw(t, "blockkey")
				if !absent[k] {
					ks = append(ks, k)
				}
			}
		}
		c.Blocks = append(c.Blocks, ks)
	}
	c.Minus = rapid.IntRange(0, 3).Draw(t, "minus") == 0
	return c
}

func checkC15(c c15Case) *ev.Failure {
	return safely(func() *ev.Failure {
		ctx := context.Background()
		src := c.Expr.render()
		expr, err := sqe.Parse(ctx, src)
		if err != nil {
			return ev.Failf("parse/reject-valid", "generated expression %q rejected: %v", src, err)
		}
		src2 := c.Expr2.render()
		expr2, err := sqe.Parse(ctx, src2)
		if err != nil {
			return ev.Failf("parse/reject-valid", "generated expression %q rejected: %v", src2, err)
		}
		if c.Minus {
			for _, bad := range []string{"-" + src, src + " -k0", "(" + src + ") && -'k 1'", "k0 || -(" + src + ")"} {
				if _, err := sqe.Parse(ctx, bad); err == nil {
					return ev.Failf("parse/minus-accepted", "expression with a '-' operator accepted: %q", bad)
				}
			}
		}

		bitmaps := map[string]*roaring64.Bitmap{}
		for i, ks := range c.Blocks {
			for _, k := range ks {
				if bitmaps[k] == nil {
					bitmaps[k] = roaring64.New()
				}
				bitmaps[k].Add(c.Base + uint64(i))
			}
		}
		snapshot := map[string][]uint64{}
		for k, b := range bitmaps {
			snapshot[k] = b.ToArray()
		}
		unchanged := func(when string) *ev.Failure {
			if len(bitmaps) != len(snapshot) {
				return ev.Failf("bitmap/input-map-changed", "%s: the input map has %d keys, had %d", when, len(bitmaps), len(snapshot))
			}
			for k, want := range snapshot {
				got := bitmaps[k].ToArray()
				if fmt.Sprint(got) != fmt.Sprint(want) {
					return ev.Failf("bitmap/input-mutated", "%s: input bitmap of key %q changed from %v to %v", when, k, want, got)
				}
			}
			return nil
		}

		judge := func(tag, text string, e sqe.Expression, ast qnode) *ev.Failure {
			res := sqe.RoaringBitmapsApply(e, bitmaps)
			if f := unchanged("after evaluating " + tag); f != nil {
				return f
			}
			bi := index.NewBlockIndex(e, "idx", res)
			live := index.NewBlockIndex(e, "idx", nil)
			for i, ks := range c.Blocks {
				num := c.Base + uint64(i)
				own := &pbindex.Keys{Keys: ks}
				perBlock := sqe.KeysApply(e, sqe.NewFromIndexKeys(own))
				if res.Contains(num) != perBlock {
					return ev.Failf("differential/bitmap-vs-keys", "%s %q: block %d (keys %q): bitmap evaluation says %v, per-block evaluation says %v", tag, text, num, ks, res.Contains(num), perBlock)
				}
				set := map[string]bool{}
				for _, k := range ks {
					set[k] = true
				}
				if want := ast.eval(set); perBlock != want {
					return ev.Failf("semantics/keys-vs-ast", "%s %q: block %d (keys %q): per-block evaluation says %v, the expression's meaning is %v", tag, text, num, ks, perBlock, want)
				}
				raw, _ := proto.Marshal(own)
				if bi.Skip(num) != live.SkipFromKeys(raw) {
					return ev.Failf("differential/skip-vs-skipfromkeys", "%s %q: block %d: Skip=%v SkipFromKeys=%v", tag, text, num, bi.Skip(num), live.SkipFromKeys(raw))
				}
				if bi.Skip(num) == perBlock {
					return ev.Failf("skip/inverted", "%s %q: block %d matches=%v but Skip=%v", tag, text, num, perBlock, bi.Skip(num))
				}
			}
			// "the index excludes every block" (a job then skips the whole segment) exactly when every block is skipped
			allSkipped := true
			for i := range c.Blocks {
				if !bi.Skip(c.Base + uint64(i)) {
					allSkipped = false
				}
			}
			if bi.ExcludesAllBlocks() != allSkipped {
				return ev.Failf("skip/excludes-all-blocks", "%s %q: ExcludesAllBlocks()=%v but Skip rejects every block of the segment: %v (selected %v)", tag, text, bi.ExcludesAllBlocks(), allSkipped, res.ToArray())
			}
			// nothing outside the segment is selected
			if res.GetCardinality() > uint64(len(c.Blocks)) {
				return ev.Failf("bitmap/selects-outside-segment", "%s %q: %d blocks selected in a segment of %d", tag, text, res.GetCardinality(), len(c.Blocks))
			}
			// mutating the result must not reach the inputs (the caller owns the result)
			again := sqe.RoaringBitmapsApply(e, bitmaps)
			if !again.Equals(res) {
				return ev.Failf("bitmap/not-repeatable", "%s %q: second evaluation differs", tag, text)
			}
			return nil
		}
		if f := judge("expression", src, expr, c.Expr); f != nil {
			return f
		}
		if f := judge("second expression", src2, expr2, c.Expr2); f != nil {
			return f
		}
		if f := judge("expression again", src, expr, c.Expr); f != nil {
			return f
		}
		return nil
	})
}

func classifyC15(c c15Case) (bool, []string) {
	oa, ao, keys := c.Expr.shape()
	present := map[string]bool{}
	for _, ks := range c.Blocks {
		for _, k := range ks {
			present[k] = true
		}
	}
	absent := false
	var ks []string
	for k := range keys {
		ks = append(ks, k)
		if !present[k] {
			absent = true
		}
	}
	sort.Strings(ks)
	cl := []string{fmt.Sprintf("keys<=%d", bucket(uint64(len(ks))))}
	if oa {
		cl = append(cl, "or-under-and")
	}
	if ao {
		cl = append(cl, "and-under-or")
	}
	return (oa || ao) && absent, cl
}

func TestC15Eval(t *testing.T) {
	ev.Get("C15", "Evaluators").Rule = "rapid: expression ASTs (and / implicit and / or / parentheses, bare keys with operator characters inside, single- and double-quoted keys with spaces, parens, dashes) rendered with random spacing; key->block assignment over a segment of 1..64 blocks with empty blocks and keys present in no block; bitmap result contains b <=> per-block evaluation on b's own keys <=> the AST's meaning; Skip vs SkipFromKeys; ExcludesAllBlocks iff Skip rejects every block of the segment; two expressions over one bitmap map, repeated, leave every input bitmap unchanged; '-' operator rejected; non-trivial = or under and (or and under or) and a key absent from all blocks"
	ev.Prop(t, "C15", "Evaluators", genC15, checkC15, classifyC15)
}

func TestC15EvalReplay(t *testing.T) { ev.Replay(t, "C15", "Evaluators", checkC15) }

// FuzzC15Parser: arbitrary strings; whatever the parser accepts must evaluate identically both ways.
func FuzzC15Parser(f *testing.F) {
	for _, s := range []string{"a", "a b", "a || b", "a && b || c", "(a || b) && 'c d'", "\"x y\" z", "((a))", "a ||", "-a", "'", "a || (b && (c || d))", "evt:transfer || 0xdead"} {
		f.Add(s, uint64(0))
	}
	f.Fuzz(func(t *testing.T, src string, seed uint64) {
		expr, err := sqe.Parse(context.Background(), src)
		if err != nil {
			return
		}
		keys := sqe.ExtractAllKeys(expr)
		sort.Strings(keys)
		bitmaps := map[string]*roaring64.Bitmap{}
		blocks := make([][]string, 16)
		for i, k := range keys {
			bm := roaring64.New()
			for b := 0; b < 16; b++ {
				if (seed>>(uint(i*5+b)%61))&1 == 1 {
					bm.Add(uint64(b))
					blocks[b] = append(blocks[b], k)
				}
			}
			if !bm.IsEmpty() {
				bitmaps[k] = bm
			}
		}
		res := sqe.RoaringBitmapsApply(expr, bitmaps)
		for b := 0; b < 16; b++ {
			if got, want := res.Contains(uint64(b)), sqe.KeysApply(expr, sqe.NewFromIndexKeys(&pbindex.Keys{Keys: blocks[b]})); got != want {
				t.Fatalf("expression %q block %d keys %q: bitmap %v, per-block %v", src, b, blocks[b], got, want)
			}
		}
	})
}
