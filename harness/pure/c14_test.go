package pure

// C14 — execution stages respect every module dependency.

import (
	"fmt"
	"sort"
	"strings"
	"testing"
	"time"

	"github.com/streamingfast/substreams/pipeline/exec"
	"pgregory.net/rapid"

	"verif/ev"
	"verif/gdsl"
)

type c14Case struct {
	Graph gdsl.Graph `json:"graph"`
	FSB   uint64     `json:"first_streamable_block"`
	Prod  bool       `json:"prod"`
}

func genC14(t *rapid.T, allowInvalid bool) c14Case {
	c := c14Case{Graph: gdsl.GenGraph(t, gdsl.Opts{MinMods: 1, MaxMods: 12, AllowInvalidInit: allowInvalid, ParamsLikeNames: true})}
	c.FSB = rapid.SampledFrom([]uint64{0, 0, 0, 1, 6}).Draw(t, "fsb")
	c.Prod = rapid.Bool().Draw(t, "prod")
	return c
}

// withTimeout runs f with a watchdog: staging must terminate.
func withTimeout(d time.Duration, f func() *ev.Failure) *ev.Failure {
	ch := make(chan *ev.Failure, 1)
	go func() {
		defer func() {
			if r := recover(); r != nil {
				ch <- ev.Failf("panic", "panic: %v", r)
			}
		}()
		ch <- f()
	}()
	select {
	case out := <-ch:
		return out
	case <-time.After(d):
		return ev.Failf("hang", "did not return within %s", d)
	}
}

func resolved(init, fsb uint64) uint64 {
	if init == 0 {
		return fsb
	}
	return init
}

func checkC14(c c14Case) *ev.Failure {
	pb := c.Graph.PB()
	for _, out := range c.Graph.Mods {
		if out.Kind != "map" {
			continue
		}
		out := out
		f := withTimeout(10*time.Second, func() *ev.Failure {
			return checkC14Output(c, out.Name, func() (*exec.Graph, error) {
				return exec.NewOutputModuleGraph(out.Name, c.Prod, pb, c.FSB)
			})
		})
		if f != nil {
			f.Msg = fmt.Sprintf("output module %s: %s", out.Name, f.Msg)
			return f
		}
	}
	return nil
}

func checkC14Output(c c14Case, output string, build func() (*exec.Graph, error)) *ev.Failure {
	g := c.Graph
	used := g.Ancestors(output)
	used[output] = true

	// harness predicate on the graph with resolved initial blocks
	rg := g.Clone()
	belowFSB := false
	for i := range rg.Mods {
		if rg.Mods[i].Initial != 0 && rg.Mods[i].Initial < c.FSB && used[rg.Mods[i].Name] {
			belowFSB = true
		}
		rg.Mods[i].Initial = resolved(rg.Mods[i].Initial, c.FSB)
	}
	mustReject, mustAccept := false, true
	for _, m := range rg.Mods {
		if !used[m.Name] {
			continue
		}
		// "an input exists at the initial block" is read as graph.go reads it: a source input, a map/store input
		// that has started, or params when they are the module's only input (the documented special case); params
		// next to later-starting inputs do not make the module runnable at its initial block
		if !rg.InputAvailable(m) {
			mustReject = true
		}
		if !rg.InputAvailable(m) {
			mustAccept = false
		}
	}

	eg, err := build()
	rec := ev.Get("C14", "outcomes")
	if err != nil {
		noInput := strings.Contains(err.Error(), "no input available")
		if noInput {
			rec.Count("rejected:no-input-available", 1)
		} else {
			rec.Count("rejected:other", 1)
		}
		switch {
		case belowFSB:
			return nil // rejected because a module starts below the first streamable block (either message is fine)
		case noInput && mustAccept:
			return ev.Failf("reject/valid-graph", "rejected with %q although every needed module has an input available at its initial block", err)
		case !noInput:
			return ev.Failf("reject/other-error", "valid generated graph rejected: %v", err)
		}
		return nil
	}
	rec.Count("accepted", 1)
	if belowFSB {
		return ev.Failf("accept/below-first-streamable", "accepted although a needed module has a non-zero initial block below the first streamable block %d", c.FSB)
	}
	if mustReject {
		return ev.Failf("accept/no-input-at-initial-block", "accepted although a needed module has no input available at its initial block")
	}

	stages := eg.StagedUsedModules()
	layerOf := map[string]int{}
	stageOf := map[string]int{}
	gl := 0
	for si, stage := range stages {
		if len(stage) == 0 {
			return ev.Failf("stages/empty-stage", "stage %d is empty", si)
		}
		for li, layer := range stage {
			if len(layer) == 0 {
				return ev.Failf("stages/empty-layer", "stage %d layer %d is empty", si, li)
			}
			storeLayer := layer[0].GetKindStore() != nil
			for _, m := range layer {
				if (m.GetKindStore() != nil) != storeLayer {
					return ev.Failf("stages/mixed-layer", "stage %d layer %d mixes stores and non-stores: %s", si, li, describeStages(stages))
				}
				if _, dup := layerOf[m.Name]; dup {
					return ev.Failf("stages/duplicate", "module %s placed twice: %s", m.Name, describeStages(stages))
				}
				layerOf[m.Name] = gl
				stageOf[m.Name] = si
			}
			isLastLayer := li == len(stage)-1
			if storeLayer && !isLastLayer {
				return ev.Failf("stages/store-layer-not-closing", "stage %d: store layer %d is not the last layer of its stage: %s", si, li, describeStages(stages))
			}
			if isLastLayer && !storeLayer && si != len(stages)-1 {
				return ev.Failf("stages/stage-not-closed-by-store", "stage %d is not the last and does not end with a store layer: %s", si, describeStages(stages))
			}
			gl++
		}
	}
	var missing, extra []string
	for name := range used {
		if _, ok := layerOf[name]; !ok {
			missing = append(missing, name)
		}
	}
	for name := range layerOf {
		if !used[name] {
			extra = append(extra, name)
		}
	}
	sort.Strings(missing)
	sort.Strings(extra)
	if len(missing) > 0 {
		return ev.Failf("stages/missing-module", "needed modules not staged: %v in %s", missing, describeStages(stages))
	}
	if len(extra) > 0 {
		return ev.Failf("stages/unneeded-module", "modules not needed for the output were staged: %v in %s", extra, describeStages(stages))
	}
	for _, m := range g.Mods {
		if !used[m.Name] {
			continue
		}
		for _, d := range m.Deps() {
			if layerOf[d] >= layerOf[m.Name] {
				return ev.Failf("stages/dependency-order", "module %s (layer %d) is not strictly after its dependency %s (layer %d): %s", m.Name, layerOf[m.Name], d, layerOf[d], describeStages(stages))
			}
		}
	}
	if _, ok := layerOf[output]; !ok || stageOf[output] != len(stages)-1 {
		return ev.Failf("stages/output-not-last-stage", "output module %s is not in the last stage: %s", output, describeStages(stages))
	}
	// consistency of the other views of the graph
	if got := len(eg.UsedModules()); got != len(used) {
		return ev.Failf("graph/used-modules", "UsedModules() has %d modules, want %d", got, len(used))
	}
	nstores := 0
	for _, m := range g.Mods {
		if used[m.Name] && m.Kind == "store" {
			nstores++
		}
	}
	if got := len(eg.Stores()); got != nstores {
		return ev.Failf("graph/stores", "Stores() has %d stores, want %d", got, nstores)
	}
	for name := range used {
		if eg.ModuleHashes().Get(name) == "" {
			return ev.Failf("graph/hash-missing", "no hash for needed module %s", name)
		}
		if got, want := eg.ModulesInitBlocks()[name], resolved(g.Mods[g.Index(name)].Initial, c.FSB); got != want {
			return ev.Failf("graph/init-block", "ModulesInitBlocks[%s]=%d want %d", name, got, want)
		}
	}
	return nil
}

func describeStages(stages exec.ExecutionStages) string {
	var sb strings.Builder
	for si, stage := range stages {
		fmt.Fprintf(&sb, " S%d:", si)
		for _, layer := range stage {
			sb.WriteString("[")
			for i, m := range layer {
				if i > 0 {
					sb.WriteString(" ")
				}
				sb.WriteString(m.Name)
			}
			sb.WriteString("]")
		}
	}
	return sb.String()
}

func classifyC14(c c14Case) (bool, []string) {
	// >=2 store layers needed for some output and a block filter or a deltas-mode input
	g := c.Graph
	depth := map[string]int{} // number of stores on the longest dependency path, inclusive
	var storeDepth func(name string) int
	storeDepth = func(name string) int {
		if d, ok := depth[name]; ok {
			return d
		}
		m := g.Mods[g.Index(name)]
		best := 0
		for _, d := range m.Deps() {
			if v := storeDepth(d); v > best {
				best = v
			}
		}
		if m.Kind == "store" {
			best++
		}
		depth[name] = best
		return best
	}
	maxDepth, special := 0, false
	for _, m := range g.Mods {
		if d := storeDepth(m.Name); d > maxDepth {
			maxDepth = d
		}
		if m.Filter != nil {
			special = true
		}
		for _, in := range m.Inputs {
			if in.Mode == "deltas" {
				special = true
			}
		}
	}
	cl := []string{fmt.Sprintf("modules<=%d", bucket(uint64(len(g.Mods)))), fmt.Sprintf("store-depth=%d", maxDepth)}
	return maxDepth >= 2 && special, cl
}

func TestC14(t *testing.T) {
	ev.Get("C14", "Stages").Rule = "rapid: constructive random DAGs of 1..12 modules (maps, stores of every kind, block indexes; source/clock/params/map/store inputs in get and deltas mode; block filters; params-only and clock-only modules; arbitrary initial blocks, first streamable block 0/1/6), every map module tried as output; oracle = validity predicate over StagedUsedModules() computed from the harness' own reachability; non-trivial = store depth >=2 and a block filter or a deltas-mode input"
	ev.Prop(t, "C14", "Stages", func(t *rapid.T) c14Case { return genC14(t, false) }, checkC14, classifyC14)
}

func TestC14InvalidInit(t *testing.T) {
	ev.Get("C14", "InvalidInit").Rule = "rapid: same generator but modules may have no input available at their initial block; the graph must be rejected with 'no input available' when a needed module has neither source nor params input and every referenced module starts later, and accepted when every needed module has an available input (params plus later modules is left to the implementation)"
	ev.Prop(t, "C14", "InvalidInit", func(t *rapid.T) c14Case { return genC14(t, true) }, checkC14, classifyC14)
}

func TestC14Replay(t *testing.T)            { ev.Replay(t, "C14", "Stages", checkC14) }
func TestC14InvalidInitReplay(t *testing.T) { ev.Replay(t, "C14", "InvalidInit", checkC14) }
