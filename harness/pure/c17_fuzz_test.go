package pure

// C17 — coverage-guided search over wire bytes: whatever decodes as a tier1 Request or a tier2 ProcessRangeRequest goes
// through the same judged sequence as TestC17 (validation, graph construction, resolution, planning) under the
// watchdog.

import (
	"testing"

	pbssinternal "github.com/streamingfast/substreams/pb/sf/substreams/intern/v2"
	pbsubstreamsrpc "github.com/streamingfast/substreams/pb/sf/substreams/rpc/v2"
	"google.golang.org/protobuf/proto"
	"pgregory.net/rapid"

	"verif/gdsl"
	"verif/sdsl"
)

func FuzzC17Request(f *testing.F) {
	// a few valid requests as starting corpus: fuzzing reaches the logic behind the validation only from them
	for seed := 1; seed <= 6; seed++ {
		c := rapid.Custom(genC17).Example(seed)
		f.Add([]byte(c.Request), c.Tier2, uint8(c.Seg))
	}
	g := rapid.Custom(func(t *rapid.T) gdsl.Graph { return gdsl.GenGraph(t, gdsl.Opts{MinMods: 2, MaxMods: 5}) }).Example(3)
	req := &pbsubstreamsrpc.Request{Modules: g.PB(), OutputModule: g.Mods[len(g.Mods)-1].Name, StartBlockNum: 5, StopBlockNum: 20}
	b, _ := proto.Marshal(req)
	f.Add(b, false, uint8(10))
	f.Fuzz(func(t *testing.T, raw []byte, tier2 bool, seg uint8) {
		var msg proto.Message = &pbsubstreamsrpc.Request{}
		if tier2 {
			msg = &pbssinternal.ProcessRangeRequest{}
		}
		if err := proto.Unmarshal(raw, msg); err != nil {
			return
		}
		if len(raw) > 4096 {
			return // the statement's bound on allocation is about small requests
		}
		c := c17Case{Tier2: tier2, Request: sdsl.Bin(raw), Seg: uint64(seg%12) + 1, Final: 25}
		if fail := checkC17(c); fail != nil {
			t.Fatalf("%s: %s", fail.Sig, fail.Msg)
		}
	})
}
