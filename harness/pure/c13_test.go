package pure

// C13 — Segments tile every block range exactly.

import (
	"fmt"
	"testing"

	"github.com/streamingfast/substreams/block"
	"pgregory.net/rapid"

	"verif/ev"
)

type c13Seg struct {
	Interval, Initial, End uint64
	// Derived: the segmenter is obtained from another one (BaseInitial, BaseEnd) that was already used, through
	// WithInitialBlock and WithExclusiveEndBlock, as the scheduler derives the segmenters of modules and stages
	Derived              bool   `json:",omitempty"`
	BaseInitial, BaseEnd uint64 `json:",omitempty"`
}

func safely(f func() *ev.Failure) (out *ev.Failure) {
	defer func() {
		if r := recover(); r != nil {
			out = ev.Failf("panic", "panic: %v", r)
		}
	}()
	return f()
}

// checkC13Seg is the validity predicate over one segmenter.
func checkC13Seg(c c13Seg) *ev.Failure {
	return safely(func() *ev.Failure {
		s := block.NewSegmenter(c.Interval, c.Initial, c.End)
		if c.Derived {
			base := block.NewSegmenter(c.Interval, c.BaseInitial, c.BaseEnd)
			_ = base.Range(base.FirstIndex())
			_ = base.Range(base.LastIndex())
			_ = base.EndsOnInterval(base.FirstIndex())
			s = base.WithInitialBlock(c.Initial).WithExclusiveEndBlock(c.End)
			_ = base.Range(base.FirstIndex())
		}
		first, last := s.FirstIndex(), s.LastIndex()
		if last < first {
			return ev.Failf("seg/index-order", "%+v: last index %d < first %d", c, last, first)
		}
		if s.Count() != last-first+1 {
			return ev.Failf("seg/count", "%+v: Count()=%d, want %d", c, s.Count(), last-first+1)
		}
		expectStart := c.Initial
		for idx := first; idx <= last; idx++ {
			r := s.Range(idx)
			if r == nil {
				return ev.Failf("seg/nil-inside", "%+v: Range(%d) is nil inside [%d,%d]", c, idx, first, last)
			}
			if r.StartBlock >= r.ExclusiveEndBlock {
				return ev.Failf("seg/empty", "%+v: Range(%d)=%s is empty", c, idx, r)
			}
			if r.StartBlock != expectStart {
				return ev.Failf("seg/contiguous", "%+v: Range(%d)=%s does not start at %d (gap or overlap)", c, idx, r, expectStart)
			}
			if idx != first && r.StartBlock%c.Interval != 0 {
				return ev.Failf("seg/align-start", "%+v: Range(%d)=%s start not aligned", c, idx, r)
			}
			if idx != last && r.ExclusiveEndBlock%c.Interval != 0 {
				return ev.Failf("seg/align-end", "%+v: Range(%d)=%s end not aligned", c, idx, r)
			}
			if r.ExclusiveEndBlock-r.StartBlock > c.Interval {
				return ev.Failf("seg/too-long", "%+v: Range(%d)=%s longer than the segment size", c, idx, r)
			}
			// a segment never straddles a boundary
			if r.StartBlock/c.Interval != (r.ExclusiveEndBlock-1)/c.Interval {
				return ev.Failf("seg/straddle", "%+v: Range(%d)=%s straddles a boundary", c, idx, r)
			}
			if got, want := s.EndsOnInterval(idx), r.ExclusiveEndBlock%c.Interval == 0; got != want {
				return ev.Failf("seg/ends-on-interval", "%+v: EndsOnInterval(%d)=%v want %v", c, idx, got, want)
			}
			expectStart = r.ExclusiveEndBlock
		}
		if expectStart != c.End {
			return ev.Failf("seg/union", "%+v: union ends at %d, want %d", c, expectStart, c.End)
		}
		// indexes outside yield no segment
		for d := 1; d <= 8; d++ {
			// (negative indexes included: they are outside every range)
			if r := s.Range(first - d); r != nil {
				return ev.Failf("seg/outside-below", "%+v: Range(%d)=%s below first index %d", c, first-d, r, first)
			}
			if r := s.Range(last + d); r != nil {
				return ev.Failf("seg/outside-above", "%+v: Range(%d)=%s above last index %d", c, last+d, r, last)
			}
		}
		for _, idx := range []int{-1, -2, -1 << 31, -1 << 62} {
			if r := s.Range(idx); r != nil {
				return ev.Failf("seg/outside-below", "%+v: Range(%d)=%s for a negative index", c, idx, r)
			}
		}
		// index lookup designates the containing segment
		probe := func(b uint64) *ev.Failure {
			if b >= c.Initial && b < c.End {
				idx := s.IndexForStartBlock(b)
				r := s.Range(idx)
				if r == nil || !r.Contains(b) {
					return ev.Failf("seg/index-for-start", "%+v: IndexForStartBlock(%d)=%d → %s does not contain it", c, b, idx, r)
				}
			}
			if b > c.Initial && b <= c.End {
				idx := s.IndexForEndBlock(b)
				r := s.Range(idx)
				if r == nil || !r.Contains(b-1) {
					return ev.Failf("seg/index-for-end", "%+v: IndexForEndBlock(%d)=%d → %s does not contain %d", c, b, idx, r, b-1)
				}
			}
			return nil
		}
		if c.End-c.Initial <= 200 {
			for b := c.Initial; b <= c.End; b++ {
				if f := probe(b); f != nil {
					return f
				}
			}
		} else {
			for _, b := range []uint64{c.Initial, c.Initial + 1, c.Initial + c.Interval - 1, c.Initial + c.Interval, (c.Initial/c.Interval + 1) * c.Interval, c.End - 1, c.End, (c.End - 1) / c.Interval * c.Interval, (c.Initial + c.End) / 2} {
				if f := probe(b); f != nil {
					return f
				}
			}
		}
		// derived segmenters keep the same tiling
		if w := s.WithExclusiveEndBlock(c.End); w.Count() != s.Count() || w.InitialBlock() != c.Initial || w.ExclusiveEndBlock() != c.End {
			return ev.Failf("seg/with-end", "%+v: WithExclusiveEndBlock changed the segmenter", c)
		}
		if w := s.WithInitialBlock(c.Initial); w.Count() != s.Count() || w.InitialBlock() != c.Initial || w.ExclusiveEndBlock() != c.End {
			return ev.Failf("seg/with-initial", "%+v: WithInitialBlock changed the segmenter", c)
		}
		return nil
	})
}

func c13SegNontrivial(c c13Seg) bool {
	n := (c.End-1)/c.Interval - c.Initial/c.Interval + 1
	return c.Initial%c.Interval != 0 && c.End%c.Interval != 0 && n >= 3
}

func TestC13SegExhaustive(t *testing.T) {
	r := ev.Get("C13", "SegExhaustive")
	r.Exhaustive = true
	r.Rule = "exhaustive: segment size 1..16 x initial 0..64 x end initial+1..96, every index first-2..last+2 and every block; non-trivial = initial and end both off-boundary and >=3 segments; distinct by (size,initial,end)"
	shard, n := ev.Shard()
	i := 0
	for size := uint64(1); size <= 16; size++ {
		for init := uint64(0); init <= 64; init++ {
			i++
			if i%n != shard {
				continue
			}
			for end := init + 1; end <= 96; end++ {
				c := c13Seg{Interval: size, Initial: init, End: end}
				f := checkC13Seg(c)
				r.CaseKey(size<<32|init<<16|end, c13SegNontrivial(c), func() any { return c })
				r.Report(t, c, f)
				if f == nil && (init+end)%3 == 0 {
					// the same segmenter derived from a used one with a lower initial block and another end
					d := c13Seg{Interval: size, Initial: init, End: end, Derived: true, BaseInitial: init / 2, BaseEnd: end + size + 1}
					r.Report(t, d, checkC13Seg(d))
				}
			}
		}
	}
}

func TestC13SegRandom(t *testing.T) {
	ev.Get("C13", "SegRandom").Rule = "rapid: segment size up to 2^20, initial/end up to 2^40 biased to boundaries, one case in three obtained with WithInitialBlock/WithExclusiveEndBlock from a segmenter that was already queried; non-trivial as in the exhaustive part"
	ev.Prop(t, "C13", "SegRandom", func(t *rapid.T) c13Seg {
		size := rapid.OneOf(rapid.Uint64Range(1, 20), rapid.Uint64Range(1, 1<<20)).Draw(t, "size")
		near := func(label string) uint64 {
			k := rapid.Uint64Range(0, 1<<20).Draw(t, label+"k")
			d := rapid.Int64Range(-2, 2).Draw(t, label+"d")
			v := int64(k*size) + d
			if rapid.Bool().Draw(t, label+"free") {
				v = int64(rapid.Uint64Range(0, 1<<40).Draw(t, label+"v"))
			}
			if v < 0 {
				v = 0
			}
			return uint64(v)
		}
		init := near("init")
		var end uint64
		switch rapid.IntRange(0, 2).Draw(t, "endmode") {
		case 0:
			end = init + rapid.Uint64Range(1, 5*size+3).Draw(t, "len")
		case 1:
			end = near("end")
		default:
			end = init + rapid.Uint64Range(1, 1<<30).Draw(t, "len")
		}
		if end <= init {
			end = init + 1
		}
		if (end-init)/size > 3000 { // keep the per-case walk bounded
			end = init + 3000*size
		}
		c := c13Seg{Interval: size, Initial: init, End: end}
		if rapid.IntRange(0, 2).Draw(t, "derived") == 0 {
			c.Derived = true
			c.BaseInitial = rapid.Uint64Range(0, init).Draw(t, "baseinit")
			c.BaseEnd = end + rapid.Uint64Range(0, 3*size).Draw(t, "baseend")
			if c.BaseEnd <= c.BaseInitial {
				c.BaseEnd = c.BaseInitial + 1
			}
		}
		return c
	}, checkC13Seg, func(c c13Seg) (bool, []string) {
		return c13SegNontrivial(c), []string{fmt.Sprintf("segments<=%d", bucket((c.End-1)/c.Interval-c.Initial/c.Interval+1))}
	})
}

func bucket(n uint64) uint64 {
	for _, b := range []uint64{1, 2, 3, 10, 100, 1000} {
		if n <= b {
			return b
		}
	}
	return 1 << 62
}

func TestC13SegReplay(t *testing.T)       { ev.Replay(t, "C13", "SegExhaustive", checkC13Seg) }
func TestC13SegRandomReplay(t *testing.T) { ev.Replay(t, "C13", "SegRandom", checkC13Seg) }

// ---- Range.Split ----

type c13Split struct{ Start, Len, Chunk uint64 }

func covered(rs []*block.Range, upTo uint64) (map[uint64]int, *ev.Failure) {
	m := map[uint64]int{}
	for _, r := range rs {
		if r == nil {
			return nil, ev.Failf("nil-range", "nil range in output")
		}
		if r.ExclusiveEndBlock < r.StartBlock || r.ExclusiveEndBlock-r.StartBlock > upTo {
			return nil, ev.Failf("bad-range", "range %s is inverted or too long", r)
		}
		for b := r.StartBlock; b < r.ExclusiveEndBlock; b++ {
			m[b]++
		}
	}
	return m, nil
}

func checkC13Split(c c13Split) *ev.Failure {
	return safely(func() *ev.Failure {
		in := block.NewRange(c.Start, c.Start+c.Len)
		out := in.Split(c.Chunk)
		cov, f := covered(out, c.Len)
		if f != nil {
			return f
		}
		if uint64(len(cov)) != c.Len {
			return ev.Failf("split/cover", "%+v: Split covers %d blocks, want %d: %v", c, len(cov), c.Len, block.Ranges(out))
		}
		for b, n := range cov {
			if n != 1 || b < c.Start || b >= c.Start+c.Len {
				return ev.Failf("split/cover", "%+v: block %d covered %d times: %v", c, b, n, block.Ranges(out))
			}
		}
		for i, r := range out {
			if r.IsEmpty() {
				return ev.Failf("split/empty", "%+v: empty chunk %s", c, r)
			}
			if r.Size() > c.Chunk && len(out) > 1 {
				return ev.Failf("split/chunk-size", "%+v: chunk %s larger than %d", c, r, c.Chunk)
			}
			if i > 0 && out[i-1].ExclusiveEndBlock != r.StartBlock {
				return ev.Failf("split/order", "%+v: chunks not in order: %v", c, block.Ranges(out))
			}
		}
		return nil
	})
}

func TestC13SplitExhaustive(t *testing.T) {
	r := ev.Get("C13", "SplitExhaustive")
	r.Exhaustive = true
	r.Rule = "exhaustive: start 0..40 x length 1..60 x chunk 1..16; non-trivial = >=3 chunks and start off-boundary"
	shard, n := ev.Shard()
	for start := uint64(0); start <= 40; start++ {
		if int(start)%n != shard {
			continue
		}
		for l := uint64(1); l <= 60; l++ {
			for chunk := uint64(1); chunk <= 16; chunk++ {
				c := c13Split{start, l, chunk}
				f := checkC13Split(c)
				r.CaseKey(start<<32|l<<16|chunk, l > 2*chunk && start%chunk != 0, func() any { return c })
				r.Report(t, c, f)
			}
		}
	}
}

func TestC13SplitReplay(t *testing.T) { ev.Replay(t, "C13", "SplitExhaustive", checkC13Split) }

// ---- Ranges.Merged ----

type c13Ranges struct {
	R      [][2]uint64
	Bucket uint64
}

func checkC13Merged(c c13Ranges) *ev.Failure {
	return safely(func() *ev.Failure {
		var in block.Ranges
		for _, p := range c.R {
			in = append(in, block.NewRange(p[0], p[1]))
		}
		want, _ := covered(in, 1<<20)
		snapshot := in.String()
		out := in.Merged()
		if in.String() != snapshot {
			return ev.Failf("merged/mutates-input", "%v: input changed to %v", snapshot, in)
		}
		got, f := covered(out, 1<<20)
		if f != nil {
			return f
		}
		if len(got) != len(want) {
			return ev.Failf("merged/cover", "%v: Merged()=%v covers %d blocks, want %d", in, out, len(got), len(want))
		}
		for b, n := range got {
			if n != 1 || want[b] != 1 {
				return ev.Failf("merged/cover", "%v: Merged()=%v block %d covered %d times (input %d)", in, out, b, n, want[b])
			}
		}
		for i := 1; i < len(out); i++ {
			if out[i-1].ExclusiveEndBlock > out[i].StartBlock {
				return ev.Failf("merged/order", "%v: Merged()=%v not sorted/disjoint", in, out)
			}
			if out[i-1].ExclusiveEndBlock == out[i].StartBlock {
				return ev.Failf("merged/adjacent-left", "%v: Merged()=%v still has adjacent ranges", in, out)
			}
		}
		if c.Bucket >= 2 {
			ob := in.MergedBuckets(c.Bucket)
			gb, f := covered(ob, 1<<20)
			if f != nil {
				return f
			}
			if len(gb) != len(want) {
				return ev.Failf("buckets/cover", "%v: MergedBuckets(%d)=%v covers %d blocks, want %d", in, c.Bucket, ob, len(gb), len(want))
			}
			for b, n := range gb {
				if n != 1 || want[b] != 1 {
					return ev.Failf("buckets/cover", "%v: MergedBuckets(%d)=%v block %d covered %d times", in, c.Bucket, ob, b, n)
				}
			}
		}
		return nil
	})
}

func c13RangesNontrivial(c c13Ranges) bool {
	adj, gaps := 0, 0
	for i := 1; i < len(c.R); i++ {
		if c.R[i-1][1] == c.R[i][0] {
			adj++
		} else {
			gaps++
		}
	}
	return adj >= 2 && gaps >= 1
}

// all sorted disjoint lists of <=4 non-empty ranges over 0..12
func TestC13MergedExhaustive(t *testing.T) {
	r := ev.Get("C13", "MergedExhaustive")
	r.Exhaustive = true
	r.Rule = "exhaustive: all sorted disjoint lists of 0..4 non-empty ranges over blocks 0..12 (x bucket sizes 2..5 for MergedBuckets); non-trivial = >=2 adjacent pairs and >=1 gap"
	shard, n := ev.Shard()
	count := 0
	var rec func(cur [][2]uint64, from uint64)
	rec = func(cur [][2]uint64, from uint64) {
		count++
		if count%n == shard {
			for bucket := uint64(2); bucket <= 5; bucket++ {
				c := c13Ranges{R: append([][2]uint64{}, cur...), Bucket: bucket}
				f := checkC13Merged(c)
				r.Case(c, c13RangesNontrivial(c))
				r.Report(t, c, f)
			}
		}
		if len(cur) == 4 {
			return
		}
		for s := from; s < 12; s++ {
			for e := s + 1; e <= 12; e++ {
				rec(append(cur, [2]uint64{s, e}), e)
			}
		}
	}
	rec(nil, 0)
}

func TestC13MergedRandom(t *testing.T) {
	ev.Get("C13", "MergedRandom").Rule = "rapid: sorted disjoint lists of 0..12 non-empty ranges over 0..64, gaps biased to 0 (adjacency chains); non-trivial = >=2 adjacent pairs and >=1 gap"
	ev.Prop(t, "C13", "MergedRandom", func(t *rapid.T) c13Ranges {
		n := rapid.IntRange(0, 12).Draw(t, "n")
		var out [][2]uint64
		pos := rapid.Uint64Range(0, 5).Draw(t, "pos")
		for i := 0; i < n && pos < 64; i++ {
			gap := rapid.SampledFrom([]uint64{0, 0, 0, 1, 2, 7}).Draw(t, "gap")
			if i == 0 {
				gap = 0
			}
			l := rapid.Uint64Range(1, 8).Draw(t, "len")
			s := pos + gap
			if s+l > 64 {
				break
			}
			out = append(out, [2]uint64{s, s + l})
			pos = s + l
		}
		return c13Ranges{R: out, Bucket: rapid.Uint64Range(2, 20).Draw(t, "bucket")}
	}, checkC13Merged, func(c c13Ranges) (bool, []string) {
		return c13RangesNontrivial(c), []string{fmt.Sprintf("ranges=%d", len(c.R))}
	})
}

func TestC13MergedReplay(t *testing.T)       { ev.Replay(t, "C13", "MergedExhaustive", checkC13Merged) }
func TestC13MergedRandomReplay(t *testing.T) { ev.Replay(t, "C13", "MergedRandom", checkC13Merged) }
