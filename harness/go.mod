module verif

go 1.23

toolchain go1.23.5

require (
	connectrpc.com/connect v1.16.1
	github.com/RoaringBitmap/roaring v1.9.1
	github.com/streamingfast/bstream v0.0.2-0.20240916154503-c9c5c8bbeca0
	github.com/streamingfast/dmetering v0.0.0-20240816165719-51768d3da951
	github.com/streamingfast/dstore v0.1.1-0.20241011152904-9acd6205dc14
	github.com/streamingfast/substreams v0.0.0
	go.uber.org/zap v1.26.0
	google.golang.org/grpc v1.64.0
	google.golang.org/protobuf v1.33.0
	pgregory.net/rapid v1.3.0
)

require (
	buf.build/gen/go/bufbuild/reflect/connectrpc/go v1.16.1-20240117202343-bf8f65e8876c.1 // indirect
	buf.build/gen/go/bufbuild/reflect/protocolbuffers/go v1.33.0-20240117202343-bf8f65e8876c.1 // indirect
	cloud.google.com/go v0.112.1 // indirect
	cloud.google.com/go/compute/metadata v0.2.3 // indirect
	cloud.google.com/go/iam v1.1.6 // indirect
	cloud.google.com/go/monitoring v1.18.0 // indirect
	cloud.google.com/go/storage v1.38.0 // indirect
	cloud.google.com/go/trace v1.10.5 // indirect
	connectrpc.com/grpchealth v1.3.0 // indirect
	connectrpc.com/grpcreflect v1.2.0 // indirect
	connectrpc.com/otelconnect v0.7.0 // indirect
	contrib.go.opencensus.io/exporter/stackdriver v0.13.10 // indirect
	contrib.go.opencensus.io/exporter/zipkin v0.1.1 // indirect
	github.com/Azure/azure-pipeline-go v0.2.3 // indirect
	github.com/Azure/azure-storage-blob-go v0.14.0 // indirect
	github.com/GoogleCloudPlatform/opentelemetry-operations-go/detectors/gcp v0.32.3 // indirect
	github.com/GoogleCloudPlatform/opentelemetry-operations-go/exporter/trace v1.15.0 // indirect
	github.com/GoogleCloudPlatform/opentelemetry-operations-go/internal/resourcemapping v0.39.0 // indirect
	github.com/GoogleCloudPlatform/opentelemetry-operations-go/propagator v0.0.0-20221018185641-36f91511cfd7 // indirect
	github.com/abourget/llerrgroup v0.2.0 // indirect
	github.com/alecthomas/participle v0.7.1 // indirect
	github.com/aws/aws-sdk-go v1.44.325 // indirect
	github.com/beorn7/perks v1.0.1 // indirect
	github.com/bits-and-blooms/bitset v1.12.0 // indirect
	github.com/blendle/zapdriver v1.3.2-0.20200203083823-9200777f8a3d // indirect
	github.com/bobg/go-generics/v2 v2.2.2 // indirect
	github.com/bufbuild/protocompile v0.4.0 // indirect
	github.com/census-instrumentation/opencensus-proto v0.4.1 // indirect
	github.com/cespare/xxhash/v2 v2.2.0 // indirect
	github.com/chzyer/readline v1.5.0 // indirect
	github.com/cncf/xds/go v0.0.0-20240318125728-8a4994d93e50 // indirect
	github.com/davecgh/go-spew v1.1.1 // indirect
	github.com/dustin/go-humanize v1.0.1 // indirect
	github.com/envoyproxy/go-control-plane v0.12.0 // indirect
	github.com/envoyproxy/protoc-gen-validate v1.0.4 // indirect
	github.com/felixge/httpsnoop v1.0.4 // indirect
	github.com/fsnotify/fsnotify v1.6.0 // indirect
	github.com/go-logr/logr v1.4.1 // indirect
	github.com/go-logr/stdr v1.2.2 // indirect
	github.com/golang/groupcache v0.0.0-20210331224755-41bb18bfe9da // indirect
	github.com/golang/protobuf v1.5.4 // indirect
	github.com/google/s2a-go v0.1.7 // indirect
	github.com/google/uuid v1.6.0 // indirect
	github.com/googleapis/enterprise-certificate-proxy v0.3.2 // indirect
	github.com/googleapis/gax-go/v2 v2.12.3 // indirect
	github.com/gorilla/mux v1.8.0 // indirect
	github.com/grpc-ecosystem/go-grpc-middleware v1.3.0 // indirect
	github.com/grpc-ecosystem/go-grpc-prometheus v1.2.0 // indirect
	github.com/hashicorp/errwrap v1.1.0 // indirect
	github.com/hashicorp/go-multierror v1.1.1 // indirect
	github.com/hashicorp/hcl v1.0.0 // indirect
	github.com/jhump/protoreflect v1.14.0 // indirect
	github.com/jmespath/go-jmespath v0.4.0 // indirect
	github.com/klauspost/compress v1.16.6 // indirect
	github.com/lithammer/dedent v1.1.0 // indirect
	github.com/logrusorgru/aurora v2.0.3+incompatible // indirect
	github.com/magiconair/properties v1.8.7 // indirect
	github.com/manifoldco/promptui v0.9.0 // indirect
	github.com/mattn/go-ieproxy v0.0.1 // indirect
	github.com/matttproud/golang_protobuf_extensions v1.0.4 // indirect
	github.com/mitchellh/go-testing-interface v1.14.1 // indirect
	github.com/mitchellh/mapstructure v1.5.0 // indirect
	github.com/mr-tron/base58 v1.2.0 // indirect
	github.com/openzipkin/zipkin-go v0.4.2 // indirect
	github.com/paulbellamy/ratecounter v0.2.0 // indirect
	github.com/pelletier/go-toml/v2 v2.0.6 // indirect
	github.com/pmezard/go-difflib v1.0.0 // indirect
	github.com/prometheus/client_golang v1.16.0 // indirect
	github.com/prometheus/client_model v0.5.0 // indirect
	github.com/prometheus/common v0.44.0 // indirect
	github.com/prometheus/procfs v0.11.0 // indirect
	github.com/protocolbuffers/protoscope v0.0.0-20221109213918-8e7a6aafa2c9 // indirect
	github.com/rs/cors v1.10.0 // indirect
	github.com/schollz/closestmatch v2.1.0+incompatible // indirect
	github.com/sethvargo/go-retry v0.2.3 // indirect
	github.com/shopspring/decimal v1.3.1 // indirect
	github.com/spf13/afero v1.10.0 // indirect
	github.com/spf13/cast v1.5.0 // indirect
	github.com/spf13/cobra v1.7.0 // indirect
	github.com/spf13/jwalterweatherman v1.1.0 // indirect
	github.com/spf13/pflag v1.0.5 // indirect
	github.com/spf13/viper v1.15.0 // indirect
	github.com/streamingfast/cli v0.0.4-0.20230825151644-8cc84512cd80 // indirect
	github.com/streamingfast/dauth v0.0.0-20240219205130-bfe428489338 // indirect
	github.com/streamingfast/dbin v0.9.1-0.20231117225723-59790c798e2c // indirect
	github.com/streamingfast/derr v0.0.0-20230515163924-8570aaa43fe1 // indirect
	github.com/streamingfast/dgrpc v0.0.0-20240219152146-57bb131c39ca // indirect
	github.com/streamingfast/dmetrics v0.0.0-20230919161904-206fa8ebd545 // indirect
	github.com/streamingfast/dtracing v0.0.0-20220305214756-b5c0e8699839 // indirect
	github.com/streamingfast/logging v0.0.0-20230608130331-f22c91403091 // indirect
	github.com/streamingfast/opaque v0.0.0-20210811180740-0c01d37ea308 // indirect
	github.com/streamingfast/pbgo v0.0.6-0.20240823134334-812f6a16c5cb // indirect
	github.com/streamingfast/sf-tracing v0.0.0-20240430173521-888827872b90 // indirect
	github.com/streamingfast/shutter v1.5.0 // indirect
	github.com/stretchr/testify v1.8.4 // indirect
	github.com/subosito/gotenv v1.4.2 // indirect
	github.com/teris-io/shortid v0.0.0-20171029131806-771a37caa5cf // indirect
	github.com/tetratelabs/wazero v1.8.0 // indirect
	github.com/yourbasic/graph v0.0.0-20210606180040-8ecfec1c2869 // indirect
	go.opencensus.io v0.24.0 // indirect
	go.opentelemetry.io/contrib/detectors/gcp v1.9.0 // indirect
	go.opentelemetry.io/contrib/instrumentation/google.golang.org/grpc/otelgrpc v0.49.0 // indirect
	go.opentelemetry.io/contrib/instrumentation/net/http/otelhttp v0.49.0 // indirect
	go.opentelemetry.io/otel v1.24.0 // indirect
	go.opentelemetry.io/otel/exporters/stdout/stdouttrace v1.23.1 // indirect
	go.opentelemetry.io/otel/exporters/zipkin v1.23.1 // indirect
	go.opentelemetry.io/otel/metric v1.24.0 // indirect
	go.opentelemetry.io/otel/sdk v1.23.1 // indirect
	go.opentelemetry.io/otel/trace v1.24.0 // indirect
	go.uber.org/atomic v1.10.0 // indirect
	go.uber.org/multierr v1.10.0 // indirect
	golang.org/x/crypto v0.23.0 // indirect
	golang.org/x/exp v0.0.0-20231006140011-7918f672742d // indirect
	golang.org/x/mod v0.17.0 // indirect
	golang.org/x/net v0.23.0 // indirect
	golang.org/x/oauth2 v0.18.0 // indirect
	golang.org/x/sync v0.8.0 // indirect
	golang.org/x/sys v0.24.0 // indirect
	golang.org/x/term v0.20.0 // indirect
	golang.org/x/text v0.16.0 // indirect
	golang.org/x/time v0.5.0 // indirect
	google.golang.org/api v0.172.0 // indirect
	google.golang.org/genproto v0.0.0-20240227224415-6ceb2ff114de // indirect
	google.golang.org/genproto/googleapis/api v0.0.0-20240318140521-94a12d6c2237 // indirect
	google.golang.org/genproto/googleapis/rpc v0.0.0-20240318140521-94a12d6c2237 // indirect
	gopkg.in/ini.v1 v1.67.0 // indirect
	gopkg.in/yaml.v2 v2.4.0 // indirect
	gopkg.in/yaml.v3 v3.0.1 // indirect
)

replace github.com/streamingfast/substreams => /repo

replace (
	github.com/bytecodealliance/wasmtime-go/v4 => github.com/streamingfast/wasmtime-go/v4 v4.0.0-freemem3
	github.com/jhump/protoreflect => github.com/streamingfast/protoreflect v0.0.0-20231205191344-4b629d20ce8d
	github.com/yourbasic/graph v0.0.0-20210606180040-8ecfec1c2869 => github.com/streamingfast/graph v0.0.0-20220329181048-a5710712d873
)
