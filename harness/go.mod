module verif

go 1.23

toolchain go1.23.5

require (
	github.com/streamingfast/substreams v0.0.0
	pgregory.net/rapid v1.3.0
)

require (
	go.uber.org/multierr v1.10.0 // indirect
	go.uber.org/zap v1.26.0 // indirect
)

replace github.com/streamingfast/substreams => /repo

replace (
	github.com/bytecodealliance/wasmtime-go/v4 => github.com/streamingfast/wasmtime-go/v4 v4.0.0-freemem3
	github.com/jhump/protoreflect => github.com/streamingfast/protoreflect v0.0.0-20231205191344-4b629d20ce8d
	github.com/yourbasic/graph v0.0.0-20210606180040-8ecfec1c2869 => github.com/streamingfast/graph v0.0.0-20220329181048-a5710712d873
)
