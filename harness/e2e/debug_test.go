package e2e

import (
	"encoding/json"
	"fmt"
	"os"
	"os/exec"
	"pgregory.net/rapid"
	"sort"
	"strings"
	"sync"

	"testing"

	"github.com/streamingfast/substreams/orchestrator/loop"
	pboutput "github.com/streamingfast/substreams/storage/execout/pb"

	"verif/ev"
	"verif/gdsl"
	"verif/pgen"
	"verif/sdsl"
	"verif/world"
)

// TestDebugReplay prints what a saved C01 case delivers (development aid).
func TestDebugReplay(t *testing.T) {
	var c c01Case
	ok, err := ev.LoadReplay("C01", "Strategies", &c)
	if !ok || err != nil {
		t.Skip("no replay")
	}
	dir := newDir()
	for i, spec := range c.Runs {
		L, lerr := reference(c.Prog, spec, c.Head)
		S := execute(c.Prog, spec, c.Seg, c.Head, dir, false)
		fmt.Printf("run %d %+v err=%v lerr=%v session=%v jobs=%v\n", i, spec, S.res.Err, lerr, S.res.Session, S.res.Jobs)
		for _, d := range L.res.DataMessages() {
			fmt.Printf("  L %d %q\n", d.Num, d.Payload)
		}
		for _, d := range S.res.DataMessages() {
			fmt.Printf("  S %d %q\n", d.Num, d.Payload)
		}
	}
	out, _ := exec.Command("find", dir, "-type", "f").Output()
	for _, f := range strings.Split(strings.TrimSpace(string(out)), "\n") {
		line := strings.TrimPrefix(f, dir)
		if strings.HasSuffix(f, ".output.zst") {
			raw, _ := exec.Command("zstd", "-dc", f).Output()
			m := &pboutput.Map{}
			if err := m.UnmarshalFast(raw); err == nil {
				var nums []int
				for _, it := range m.Kv {
					nums = append(nums, int(it.BlockNum))
				}
				sort.Ints(nums)
				line += fmt.Sprintf("  items=%v", nums)
			}
		}
		fmt.Println(line)
	}
	if os.Getenv("VERIF_KEEP") == "" {
		os.RemoveAll(dir)
	}
}

// TestDebugC07 prints the cache directory before and after the failing subset of a saved C07 case.
func TestDebugC07(t *testing.T) {
	var c c07Case
	ok, err := ev.LoadReplay("C07", "Subsets", &c)
	if !ok || err != nil {
		t.Skip("no replay")
	}
	fmt.Println("hashes:", moduleHashes(c.Prog))
	u, _ := buildUniverse(c)
	for i, n := range u.names {
		fmt.Println("U", i, n)
	}
	for si, sub := range c.Subsets {
		keep := resolveSubset(sub, u.names)
		dir := newDir()
		files := map[string][]byte{}
		for i, rel := range u.names {
			if keep[i] {
				files[rel] = u.files[rel]
			}
		}
		writeTree(dir, files)
		S := execute(c.Prog, c.Run, c.Seg, c.Head, dir, false)
		fmt.Printf("subset %d kept=%d err=%v jobs=%+v\n", si, len(files), S.res.Err != nil, S.res.Jobs)
		if S.res.Err != nil {
			for rel := range files {
				fmt.Println("  before:", rel)
			}
			for rel := range readTree(dir) {
				if _, had := files[rel]; !had {
					fmt.Println("  new:", rel)
				}
			}
		}
		os.RemoveAll(dir)
	}
}

// TestDebugSched runs the first request of a saved C01 case on the owned scheduler loop, first-in first-out, and
// prints the scheduler states after every message (development aid).
func TestDebugSched(t *testing.T) {
	var c c01Case
	ok, err := ev.LoadReplay("C01", "Strategies", &c)
	if !ok || err != nil {
		t.Skip("no replay")
	}
	dir := newDir()
	defer os.RemoveAll(dir)
	run := c.Runs[0]
	cfg := &world.Config{Dir: dir, Seg: c.Seg, Workers: run.Workers, Final: run.Final, Steps: world.LinearChain(c.Head)}
	o, initCmd, err := world.BuildOwned(c.Prog.Modules(), world.Request{Prod: run.Prod, Start: int64(run.Start), Stop: run.Stop, Output: run.Output}, cfg)
	if err != nil {
		t.Fatal(err)
	}
	defer o.Cancel()
	fmt.Printf("plan %s\nstates:\n%s", o.Plan, o.Sched.Stages.StatesString())
	pending := []loop.Cmd{initCmd}
	for step := 0; step < 200 && len(pending) > 0; step++ {
		cmd := pending[0]
		pending = pending[1:]
		if cmd == nil {
			continue
		}
		kind := world.Kind(cmd)
		if kind == "CmdDownloadCurrentSegment" && len(pending) > 0 {
			pending = append(pending, cmd)
			continue
		}
		msg := cmd()
		var msgs []loop.Msg
		switch m := msg.(type) {
		case loop.BatchMsg:
			for _, cc := range m {
				pending = append(pending, cc)
			}
			continue
		case loop.SequenceMsg:
			for _, cc := range m {
				pending = append(pending, cc)
			}
			continue
		default:
			msgs = append(msgs, msg)
		}
		for _, m := range msgs {
			if _, isQuit := m.(loop.QuitMsg); isQuit {
				fmt.Printf("step %d QUIT %+v\n", step, m)
				return
			}
			next := o.Sched.Update(m)
			o.Sched.Stages.WaitAsyncWork()
			fmt.Printf("step %d %s -> %T %+v\n%s", step, kind, m, m, o.Sched.Stages.StatesString())
			if next != nil {
				pending = append(pending, next)
			}
		}
	}
	fmt.Printf("stalled; pending %d\n", len(pending))
}

// TestDebugMapperFileOfStoreStage: a mapper with a low initial block feeding a store that starts inside a segment;
// a request for a downstream module first, then a request for the mapper itself over that segment.
func TestDebugMapperFileOfStoreStage(t *testing.T) {
	if os.Getenv("VERIF_DEBUG_MAPPERFILE") == "" {
		t.Skip("development aid")
	}
	seg, head := uint64(5), uint64(33)
	g := gdsl.Graph{Mods: []gdsl.Mod{
		{Name: "m", Kind: "map", Initial: 1, Entry: "m", Inputs: []gdsl.In{{T: "source", Ref: gdsl.ClockType}}},
		{Name: "s", Kind: "store", Policy: "set", VType: "string", Initial: 12, Entry: "s", Inputs: []gdsl.In{{T: "map", Ref: "m"}}},
		{Name: "out", Kind: "map", Initial: 1, Entry: "out", Inputs: []gdsl.In{{T: "source", Ref: gdsl.ClockType}, {T: "store", Ref: "s", Mode: "get"}}},
	}}
	p := pgen.Prog{Graph: g, Seed: 7, Beh: map[string]dslrtBehaviour{
		"m":   {Kind: "map", Seed: 1},
		"s":   {Kind: "store", Seed: 2, StoreKind: sdsl.Kind{Policy: "set", VType: "string"}, MaxOps: 3},
		"out": {Kind: "map", Seed: 3},
	}}
	dir := newDir()
	defer os.RemoveAll(dir)
	runs := []runSpec{
		{Prod: true, Start: 15, Stop: 20, Output: "out", Workers: 1, Final: 30},
		{Prod: true, Start: 10, Stop: 15, Output: "m", Workers: 1, Final: 30},
	}
	for i, spec := range runs {
		S := execute(p, spec, seg, head, dir, false)
		fmt.Printf("run %d err=%v jobs=%+v blocks=%v\n", i, S.res.Err != nil, S.res.Jobs, nums(S.res.DataMessages()))
		if S.res.Err != nil {
			fmt.Println(firstLine(S.res.Err))
		}
		fmt.Println(listFiles(dir))
	}
}

// TestExploreConcurrent runs the requests of generated C01 cases concurrently on one cache directory (exploration
// aid, not a registered check: the interleaving is not owned).
func TestExploreConcurrent(t *testing.T) {
	if os.Getenv("VERIF_EXPLORE_CONCURRENT") == "" {
		t.Skip("exploration aid")
	}
	fails := 0
	rapid.Check(t, func(rt *rapid.T) {
		c := genC01(rt)
		for len(c.Runs) < 3 {
			c.Runs = append(c.Runs, genRun(rt, c.Prog, c.Seg, c.Head))
		}
		for i := range c.Runs {
			c.Runs[i].TailLag = 0
		}
		dir := newDir()
		defer os.RemoveAll(dir)
		kinds := c.Prog.StoreKinds()
		type res struct {
			S runOut
			L runOut
			e error
		}
		out := make([]res, len(c.Runs))
		var wg sync.WaitGroup
		for i, spec := range c.Runs {
			L, err := reference(c.Prog, spec, c.Head)
			out[i].L, out[i].e = L, err
		}
		for i, spec := range c.Runs {
			if out[i].e != nil {
				continue
			}
			wg.Add(1)
			go func(i int, spec runSpec) {
				defer wg.Done()
				out[i].S = execute(c.Prog, spec, c.Seg, c.Head, dir, false)
			}(i, spec)
		}
		wg.Wait()
		for i, spec := range c.Runs {
			if out[i].e != nil {
				continue
			}
			S, L := out[i].S, out[i].L
			var f *ev.Failure
			if S.res.Err != nil {
				if os.Getenv("VERIF_EXPLORE_CONCURRENT") == "values" {
					fmt.Printf("CONCURRENT-ERROR %s\n", firstLine(S.res.Err))
					continue
				}
				f = ev.Failf("run-error", "%v", firstLine(S.res.Err))
			} else if f = compareStreams(S.res, L.res, spec); f == nil {
				f = compareStores(S.last, L.last, kinds)
			}
			if f != nil {
				fails++
				js, _ := json.Marshal(c)
				fmt.Printf("CONCURRENT-FAIL run %d %+v: %s: %s\nCASE %s\n", i, spec, f.Sig, f.Msg, js)
				rt.Fatalf("concurrent failure")
			}
		}
	})
}
