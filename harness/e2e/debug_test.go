package e2e

import (
	"fmt"
	"os"
	"os/exec"
	"sort"
	"strings"

	pboutput "github.com/streamingfast/substreams/storage/execout/pb"
	"testing"

	"verif/ev"
)

// TestDebugReplay prints what a saved C01 case delivers (development aid).
func TestDebugReplay(t *testing.T) {
	var c c01Case
	ok, err := ev.LoadReplay("C01", "Strategies", &c)
	if !ok || err != nil {
		t.Skip("no replay")
	}
	dir := newDir()
	for i, spec := range c.Runs {
		L, lerr := reference(c.Prog, spec, c.Head)
		S := execute(c.Prog, spec, c.Seg, c.Head, dir, false)
		fmt.Printf("run %d %+v err=%v lerr=%v session=%v jobs=%v\n", i, spec, S.res.Err, lerr, S.res.Session, S.res.Jobs)
		for _, d := range L.res.DataMessages() {
			fmt.Printf("  L %d %q\n", d.Num, d.Payload)
		}
		for _, d := range S.res.DataMessages() {
			fmt.Printf("  S %d %q\n", d.Num, d.Payload)
		}
	}
	out, _ := exec.Command("find", dir, "-type", "f").Output()
	for _, f := range strings.Split(strings.TrimSpace(string(out)), "\n") {
		line := strings.TrimPrefix(f, dir)
		if strings.HasSuffix(f, ".output.zst") {
			raw, _ := exec.Command("zstd", "-dc", f).Output()
			m := &pboutput.Map{}
			if err := m.UnmarshalFast(raw); err == nil {
				var nums []int
				for _, it := range m.Kv {
					nums = append(nums, int(it.BlockNum))
				}
				sort.Ints(nums)
				line += fmt.Sprintf("  items=%v", nums)
			}
		}
		fmt.Println(line)
	}
	if os.Getenv("VERIF_KEEP") == "" {
		os.RemoveAll(dir)
	}
}

// TestDebugC07 prints the cache directory before and after the failing subset of a saved C07 case.
func TestDebugC07(t *testing.T) {
	var c c07Case
	ok, err := ev.LoadReplay("C07", "Subsets", &c)
	if !ok || err != nil {
		t.Skip("no replay")
	}
	fmt.Println("hashes:", moduleHashes(c.Prog))
	u, _ := buildUniverse(c)
	for i, n := range u.names {
		fmt.Println("U", i, n)
	}
	for si, sub := range c.Subsets {
		keep := resolveSubset(sub, len(u.names))
		dir := newDir()
		files := map[string][]byte{}
		for i, rel := range u.names {
			if keep[i] {
				files[rel] = u.files[rel]
			}
		}
		writeTree(dir, files)
		S := execute(c.Prog, c.Run, c.Seg, c.Head, dir, false)
		fmt.Printf("subset %d kept=%d err=%v jobs=%+v\n", si, len(files), S.res.Err != nil, S.res.Jobs)
		if S.res.Err != nil {
			for rel := range files {
				fmt.Println("  before:", rel)
			}
			for rel := range readTree(dir) {
				if _, had := files[rel]; !had {
					fmt.Println("  new:", rel)
				}
			}
		}
		os.RemoveAll(dir)
	}
}
