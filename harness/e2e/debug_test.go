package e2e

import (
	"fmt"
	"os"
	"os/exec"
	"sort"
	"strings"

	pboutput "github.com/streamingfast/substreams/storage/execout/pb"
	"testing"

	"verif/ev"
)

// TestDebugReplay prints what a saved C01 case delivers (development aid).
func TestDebugReplay(t *testing.T) {
	var c c01Case
	ok, err := ev.LoadReplay("C01", "Strategies", &c)
	if !ok || err != nil {
		t.Skip("no replay")
	}
	dir := newDir()
	for i, spec := range c.Runs {
		L, lerr := reference(c.Prog, spec, c.Head)
		S := execute(c.Prog, spec, c.Seg, c.Head, dir, false)
		fmt.Printf("run %d %+v err=%v lerr=%v session=%v jobs=%v\n", i, spec, S.res.Err, lerr, S.res.Session, S.res.Jobs)
		for _, d := range L.res.DataMessages() {
			fmt.Printf("  L %d %q\n", d.Num, d.Payload)
		}
		for _, d := range S.res.DataMessages() {
			fmt.Printf("  S %d %q\n", d.Num, d.Payload)
		}
	}
	out, _ := exec.Command("find", dir, "-type", "f").Output()
	for _, f := range strings.Split(strings.TrimSpace(string(out)), "\n") {
		line := strings.TrimPrefix(f, dir)
		if strings.HasSuffix(f, ".output.zst") {
			raw, _ := exec.Command("zstd", "-dc", f).Output()
			m := &pboutput.Map{}
			if err := m.UnmarshalFast(raw); err == nil {
				var nums []int
				for _, it := range m.Kv {
					nums = append(nums, int(it.BlockNum))
				}
				sort.Ints(nums)
				line += fmt.Sprintf("  items=%v", nums)
			}
		}
		fmt.Println(line)
	}
	if os.Getenv("VERIF_KEEP") == "" {
		os.RemoveAll(dir)
	}
}
