package e2e

// C15 (end to end) — a filtered module yields the same outputs whether an index file exists, is being
// built, or is absent, and is never skipped on a block its filter matches nor run on one it rejects.

import (
	"context"
	"fmt"
	"os"
	"sort"
	"strings"
	"testing"

	pbindex "github.com/streamingfast/substreams/pb/sf/substreams/index/v1"
	"github.com/streamingfast/substreams/sqe"
	"google.golang.org/protobuf/proto"
	"pgregory.net/rapid"

	"verif/dslrt"
	"verif/ev"
	"verif/gdsl"
	"verif/pgen"
	"verif/sdsl"
)

type c15Case struct {
	Prog pgen.Prog `json:"prog"`
	Seg  uint64    `json:"seg"`
	Head uint64    `json:"head"`
	Run  runSpec   `json:"run"`
	Keep []int     `json:"keep"` // which index files (mod count) the third scenario keeps
}

var c15Queries = []string{"k0", "k1", "'k2'", "(k1)", "((k0))", "k0 || k1", "k1 k2", "(k0 || k3) && k1", "k3 || (k1 && k2)", "\"k1\"", "k2 || k2"}

// genIndexProgram: one index module, 2..4 filtered modules sharing it (different initial blocks, single-key and
// composite filters), optionally a filtered store, and an output mapper reading all of them.
func genIndexProgram(t *rapid.T, seg uint64) pgen.Prog {
	g := gdsl.Graph{}
	idxInit := rapid.SampledFrom([]uint64{0, 0, 1, seg}).Draw(t, "idxinit")
	idx := gdsl.Mod{Name: "index_0", Kind: "index", Initial: idxInit, Inputs: []gdsl.In{{T: "source", Ref: gdsl.BlockType}}}
	if rapid.IntRange(0, 3).Draw(t, "idxfrommap") == 0 {
		// the index reads a mapper that skips its output on some blocks
		g.Mods = append(g.Mods, gdsl.Mod{Name: "map_src", Kind: "map", Initial: idxInit, Inputs: []gdsl.In{{T: "source", Ref: gdsl.BlockType}}})
		idx.Inputs = []gdsl.In{{T: "map", Ref: "map_src"}}
	}
	g.Mods = append(g.Mods, idx)
	// mapFed: nothing but map_src reads the chain, so a job that finds map_src's outputs in the cache does not read
	// the block source at all (tier2 canSkipBlockSource) and builds the index from the cached outputs
	mapFed := len(g.Mods) == 2 && rapid.Bool().Draw(t, "mapfed")
	n := rapid.IntRange(2, 4).Draw(t, "nfiltered")
	out := gdsl.Mod{Name: "out", Kind: "map", Inputs: []gdsl.In{{T: "source", Ref: gdsl.ClockType}}}
	if mapFed {
		out.Inputs = nil
	}
	lowest := ^uint64(0)
	for i := 0; i < n; i++ {
		m := gdsl.Mod{Name: fmt.Sprintf("flt_%d", i), Kind: "map", Inputs: []gdsl.In{{T: "source", Ref: gdsl.BlockType}}}
		if mapFed {
			m.Inputs = []gdsl.In{{T: "map", Ref: "map_src"}}
		}
		if i == n-1 && rapid.IntRange(0, 2).Draw(t, "filteredstore") == 0 {
			m.Kind, m.Name, m.Policy, m.VType = "store", fmt.Sprintf("fst_%d", i), "add", "int64"
		}
		m.Initial = idxInit + rapid.SampledFrom([]uint64{0, 0, 1, 3, seg - 1, seg + 1, 2 * seg}).Draw(t, "fltinit")
		m.Filter = &gdsl.Filter{Module: "index_0", Query: rapid.SampledFrom(c15Queries).Draw(t, "query")}
		if m.Kind == "map" && rapid.IntRange(0, 2).Draw(t, "queryfromparams") == 0 {
			// the query comes from the module's params (several such modules may share the index with different values)
			m.Inputs = append([]gdsl.In{{T: "params", Value: m.Filter.Query}}, m.Inputs...)
			m.Filter = &gdsl.Filter{Module: "index_0", FromParams: true}
		}
		if m.Initial < lowest {
			lowest = m.Initial
		}
		g.Mods = append(g.Mods, m)
		if m.Kind == "store" {
			out.Inputs = append(out.Inputs, gdsl.In{T: "store", Ref: m.Name, Mode: rapid.SampledFrom([]string{"get", "deltas"}).Draw(t, "storemode")})
		} else {
			out.Inputs = append(out.Inputs, gdsl.In{T: "map", Ref: m.Name})
		}
	}
	out.Initial = lowest
	g.Mods = append(g.Mods, out)
	p := pgen.Prog{Graph: g, Beh: map[string]dslrt.Behaviour{}, Seed: rapid.Uint64Range(1, 1<<30).Draw(t, "seed")}
	for i, m := range g.Mods {
		b := dslrt.Behaviour{Kind: m.Kind, Seed: p.Seed*1000 + uint64(i)}
		switch m.Kind {
		case "index":
			b.Keys = []string{"k0", "k1", "k2", "k3"}
		case "store":
			b.StoreKind = sdsl.Kind{Policy: m.Policy, VType: m.VType}
			b.MaxOps = 2
		case "map":
			if m.Name == "map_src" {
				b.Sparse, b.SkipEmpty = 3, true
			}
		}
		nget := 0
		for _, in := range m.Inputs {
			if in.T == "store" && in.Mode != "deltas" {
				b.Reads = append(b.Reads, dslrt.Read{Store: nget, Fn: "get_last", Key: "a"}, dslrt.Read{Store: nget, Fn: "get_last", Key: "b"})
				nget++
			}
			if in.T == "store" && in.Mode == "deltas" {
				b.DeltaInputs = append(b.DeltaInputs, in.Ref)
			}
		}
		p.Beh[m.Name] = b
	}
	return p
}

func genC15E2E(t *rapid.T) c15Case {
	c := c15Case{Seg: rapid.Uint64Range(3, 6).Draw(t, "seg")}
	c.Head = 6*c.Seg + 3
	c.Prog = genIndexProgram(t, c.Seg)
	init := c.Prog.Mod("out").Initial
	c.Run = runSpec{Prod: true, Output: "out", Workers: rapid.IntRange(1, 3).Draw(t, "workers"), Final: c.Head}
	c.Run.Start = init + rapid.Uint64Range(0, c.Seg).Draw(t, "startoff")
	c.Run.Stop = c.Run.Start + rapid.Uint64Range(c.Seg, 3*c.Seg).Draw(t, "len")
	if c.Run.Stop > c.Head {
		c.Run.Stop = c.Head
	}
	for i := 0; i < 3; i++ {
		c.Keep = append(c.Keep, rapid.IntRange(0, 20).Draw(t, "keep"))
	}
	if rapid.IntRange(0, 7).Draw(t, "writefaults") == 0 {
		// the runs that build index files see transient write failures of the object store (retried by the code)
		c.Run.Faults = genWriteFaults(t)
	}
	return c
}

type c15Stats struct {
	indexFiles       int
	skipped, notSkip int
	fromCached       int
}

func checkC15E2E(c c15Case) (*ev.Failure, c15Stats) {
	var st c15Stats
	L, err := reference(c.Prog, c.Run, c.Head)
	if err != nil {
		ev.Get("C15", "IndexFiles").Discard("no-pure-linear-reference")
		return nil, st
	}
	kinds := c.Prog.StoreKinds()
	hashes := moduleHashes(c.Prog)
	idxDir := "test.store/tag/" + hashes["index_0"] + "/index/"

	// filtered modules run exactly on the blocks their filter matches (dev mode shows every module's output)
	devSpec := c.Run
	devSpec.Prod = false
	D := L // the reference is a dev-mode linear run of the same range
	keysAt := map[uint64][]string{}
	ranAt := map[string]map[uint64]bool{}
	for _, d := range D.res.DataMessages() {
		if d.Debug == nil {
			continue
		}
		for _, mo := range d.Debug.DebugMapOutputs {
			if mo.Name == "index_0" && mo.MapOutput != nil {
				k := &pbindex.Keys{}
				if proto.Unmarshal(mo.MapOutput.Value, k) == nil {
					keysAt[d.Num] = k.Keys
				}
			}
			if strings.HasPrefix(mo.Name, "flt_") {
				if ranAt[mo.Name] == nil {
					ranAt[mo.Name] = map[uint64]bool{}
				}
				if mo.MapOutput != nil && len(mo.MapOutput.Value) > 0 {
					ranAt[mo.Name][d.Num] = true
				}
			}
		}
	}
	for _, m := range c.Prog.Graph.Mods {
		if !strings.HasPrefix(m.Name, "flt_") {
			continue
		}
		query := m.Filter.Query
		if m.Filter.FromParams && len(m.Inputs) > 0 {
			query = m.Inputs[0].Value
		}
		expr, err := sqe.Parse(context.Background(), query)
		if err != nil {
			return ev.Failf("parse/reject-valid", "filter %q rejected: %v", query, err), st
		}
		for _, d := range D.res.DataMessages() {
			if d.Num < m.Initial {
				continue
			}
			want := sqe.KeysApply(expr, sqe.NewFromIndexKeys(&pbindex.Keys{Keys: keysAt[d.Num]}))
			got := ranAt[m.Name][d.Num]
			if want {
				st.notSkip++
			} else {
				st.skipped++
			}
			if want && !got {
				return ev.Failf("linear/skipped-on-matching-block", "module %s (filter %q) did not run on block %d whose keys %q match", m.Name, query, d.Num, keysAt[d.Num]), st
			}
			if !want && got {
				return ev.Failf("linear/ran-on-rejected-block", "module %s (filter %q) ran on block %d whose keys %q do not match", m.Name, query, d.Num, keysAt[d.Num]), st
			}
		}
	}
	_ = devSpec

	// scenario 1: cold production run (the index is being built by the jobs)
	dirA := newDir()
	defer os.RemoveAll(dirA)
	A := execute(c.Prog, c.Run, c.Seg, c.Head, dirA, false)
	if A.res.Err != nil {
		return ev.Failf("run-error/index-being-built", "cold production run failed: %v", A.res.Err), st
	}
	if f := compareStreams(A.res, L.res, c.Run); f != nil {
		f.Sig = "index-being-built/" + f.Sig
		f.Msg = "index being built: " + f.Msg
		return f, st
	}
	if f := compareStores(A.last, L.last, kinds); f != nil {
		return f, st
	}
	tree := readTree(dirA)
	var indexFiles []string
	for rel := range tree {
		if strings.HasPrefix(rel, idxDir) {
			indexFiles = append(indexFiles, rel)
		}
	}
	sort.Strings(indexFiles)
	st.indexFiles = len(indexFiles)
	if len(indexFiles) == 0 {
		return nil, st
	}
	// scenario 2: only the index files present; scenario 3: a subset of them
	for sc, files := range [][]string{indexFiles, subsetOf(indexFiles, c.Keep)} {
		name := []string{"index-present", "index-partly-present"}[sc]
		dir := newDir()
		sub := map[string][]byte{}
		for _, rel := range files {
			sub[rel] = tree[rel]
		}
		writeTree(dir, sub)
		S := execute(c.Prog, c.Run, c.Seg, c.Head, dir, false)
		os.RemoveAll(dir)
		if S.res.Err != nil {
			return ev.Failf("run-error/"+name, "%s (%d index files): the request failed: %v", name, len(files), S.res.Err), st
		}
		if f := compareStreams(S.res, L.res, c.Run); f != nil {
			f.Sig = name + "/" + f.Sig
			f.Msg = fmt.Sprintf("%s (%d of %d index files): %s", name, len(files), len(indexFiles), f.Msg)
			return f, st
		}
		if f := compareStores(S.last, L.last, kinds); f != nil {
			f.Msg = name + ": " + f.Msg
			return f, st
		}
	}
	// scenario 4: only the outputs of the mapper the index reads are cached (the jobs may then build the index without
	// reading the block source); scenario 5: only the index files built that way
	if h, ok := hashes["map_src"]; ok {
		srcDir := "test.store/tag/" + h + "/outputs/"
		sub := map[string][]byte{}
		for rel, raw := range tree {
			if strings.HasPrefix(rel, srcDir) {
				sub[rel] = raw
			}
		}
		if len(sub) > 0 {
			dir := newDir()
			writeTree(dir, sub)
			S := execute(c.Prog, c.Run, c.Seg, c.Head, dir, false)
			tree4 := readTree(dir)
			os.RemoveAll(dir)
			if S.res.Err != nil {
				return ev.Failf("run-error/upstream-outputs-cached", "only the outputs of map_src cached: the request failed: %v", S.res.Err), st
			}
			if f := compareStreams(S.res, L.res, c.Run); f != nil {
				f.Sig = "upstream-outputs-cached/" + f.Sig
				f.Msg = "only the outputs of map_src cached: " + f.Msg
				return f, st
			}
			idx4 := map[string][]byte{}
			for rel, raw := range tree4 {
				if strings.HasPrefix(rel, idxDir) {
					idx4[rel] = raw
				}
			}
			if len(idx4) > 0 {
				dir := newDir()
				writeTree(dir, idx4)
				S := execute(c.Prog, c.Run, c.Seg, c.Head, dir, false)
				os.RemoveAll(dir)
				if S.res.Err != nil {
					return ev.Failf("run-error/index-built-from-cached-outputs", "index files built from cached outputs: the request failed: %v", S.res.Err), st
				}
				if f := compareStreams(S.res, L.res, c.Run); f != nil {
					f.Sig = "index-built-from-cached-outputs/" + f.Sig
					f.Msg = fmt.Sprintf("on the %d index files built by jobs that read map_src's cached outputs: %s", len(idx4), f.Msg)
					return f, st
				}
				st.fromCached++
			}
		}
	}
	return nil, st
}

func subsetOf(files []string, keep []int) []string {
	if len(files) == 0 {
		return nil
	}
	seen := map[int]bool{}
	var out []string
	for _, k := range keep {
		i := k % len(files)
		if !seen[i] {
			seen[i] = true
			out = append(out, files[i])
		}
	}
	sort.Strings(out)
	return out
}

func TestC15Index(t *testing.T) {
	r := ev.Get("C15", "IndexFiles")
	r.Rule = "rapid: programs with one block-index module (reading the block, or a mapper that skips outputs) and 2..4 filtered modules sharing it (single-key bare/quoted/parenthesised filters and and/or combinations, one filter in three taken from the module's params, different initial blocks; in one case in eight the object store fails the first write of up to two cache files per request transiently, which the code retries, optionally a filtered store) feeding one output mapper; a production request over 1..3 back-filled segments run (1) on an empty cache (index being built by the jobs), (2) on a cache holding only the index files of (1), (3) on a subset of them, (4) with only the outputs of the mapper the index reads (in half of those programs nothing else reads the chain, so the jobs build the index without the block source), (5) on the index files built in (4), each compared with the sequential dev-mode execution, in which every filtered module must have run exactly on the blocks whose own keys satisfy its filter; non-trivial = at least one block skipped and one not skipped, and index files existed"
	rapid.Check(t, func(rt *rapid.T) {
		c := genC15E2E(rt)
		r.Begin(c)
		f, st := checkC15E2E(c)
		cl := []string{fmt.Sprintf("index-files<=%d", bucketInt(st.indexFiles))}
		if n := writeFaultsInjected.Swap(0); n > 0 {
			r.Count("transient-write-failures-injected", int(n))
			cl = append(cl, "index-files-written-after-a-transient-failure")
		}
		if st.fromCached > 0 {
			cl = append(cl, "index-built-from-cached-upstream-outputs")
		}
		r.Case(c, st.indexFiles > 0 && st.skipped > 0 && st.notSkip > 0, cl...)
		r.Report(rt, c, f)
	})
}

func TestC15IndexReplay(t *testing.T) {
	ev.Replay(t, "C15", "IndexFiles", func(c c15Case) *ev.Failure { f, _ := checkC15E2E(c); return f })
}
