package e2e

// C05 — the segment scheduler is safe and live under every ordering of events.
//
// The scheduler, stages, worker pool and walker are the real ones, assembled as BuildParallelProcessor does;
// only the goroutine-based event loop is replaced by a loop in which the generator decides which pending
// command completes next.

import (
	"fmt"
	"os"
	"path/filepath"
	"strings"
	"testing"

	"github.com/streamingfast/substreams/orchestrator/loop"
	"github.com/streamingfast/substreams/orchestrator/stage"
	"github.com/streamingfast/substreams/orchestrator/work"
	"pgregory.net/rapid"

	"verif/ev"
	"verif/pgen"
	"verif/sdsl"
	"verif/world"
)

type c05Case struct {
	Base    c07Case `json:"base"`  // program, request, one cache subset (Subsets[0]) and debris
	Picks   []int   `json:"picks"` // which pending command completes at each step (mod #pending); filled while running
	Exhaust bool    `json:"-"`
	Split   bool    `json:"split,omitempty"` // messages queue up between the completion of a command and their handling
	// LateReads: the squasher's read of the full store at the end of the segment being merged, when it loses
	// against the partial's load, completes at a later step chosen by the schedule (world/lateread.go)
	LateReads bool `json:"late_reads,omitempty"`
	// LateInside: instead of completing at a drawn step, the held reads complete while the next merge loads its partial
	LateInside bool `json:"late_inside,omitempty"`
}

type picker func(n int) int

type c05Stats struct {
	steps, jobs, merges int
	stages, segments    int
	outOfOrder          bool
	mergeBetweenJobs    bool
	states              map[string]bool
	lateReleased        int
	lateHeld            int
}

func outputFilePath(dir, hash string, start, end uint64) string {
	return filepath.Join(dir, "test.store", "tag", hash, "outputs", fmt.Sprintf("%010d-%010d.output.zst", start, end))
}

func checkC05(c c05Case, pick picker, picks *[]int) (*ev.Failure, c05Stats) {
	st := c05Stats{states: map[string]bool{}}
	b := c.Base
	kinds := b.Prog.StoreKinds()
	L, err := reference(b.Prog, b.Run, b.Head)
	if err != nil {
		ev.Get("C05", "Schedules").Discard("no-pure-linear-reference")
		return nil, st
	}
	u, clean := buildUniverse(b)
	if clean.res.Err != nil {
		return ev.Failf("clean-run-error", "the request on an empty cache failed: %v", clean.res.Err), st
	}
	dir := newDir()
	defer os.RemoveAll(dir)
	if len(b.Subsets) > 0 && len(u.names) > 0 {
		keep := resolveSubset(b.Subsets[0], u.names)
		files := map[string][]byte{}
		hashes := moduleHashes(b.Prog)
		for i, rel := range u.names {
			k := keep[i]
			if c.LateReads {
				// the cache state in which the squasher finds, for one store, both the partial of a segment and
				// the snapshot at its end: the stage's other store has no snapshot (so the unit is not complete and
				// is merged) while the main store has its snapshots and its left-over partials
				for name, h := range hashes {
					if !strings.Contains(rel, h+"/states/") {
						continue
					}
					if strings.HasPrefix(name, "side_") && strings.Contains(rel, ".kv") {
						k = false
					}
					if strings.HasPrefix(name, "store_") {
						k = true
					}
				}
			}
			if k {
				files[rel] = u.files[rel]
			}
		}
		writeTree(dir, files)
		if os.Getenv("VERIF_DEBUG_C05") != "" && c.LateReads {
			fmt.Println("HASHES", hashes)
			fmt.Println("FILES", listFiles(dir))
		}
	}
	cfg := &world.Config{Dir: dir, Seg: b.Seg, Workers: b.Run.Workers, Final: b.Run.Final, Steps: world.LinearChain(b.Head)}
	var late *world.LateReads
	if os.Getenv("VERIF_DEBUG_C05") != "" {
		fmt.Printf("CASE late=%v inside=%v split=%v\n", c.LateReads, c.LateInside, c.Split)
	}
	if c.LateReads {
		late = &world.LateReads{InsideNextMerge: c.LateInside}
		cfg.LateReads = late
		defer late.ReleaseAll()
	}
	o, initCmd, err := world.BuildOwned(b.Prog.Modules(), world.Request{Prod: b.Run.Prod, Start: int64(b.Run.Start), Stop: b.Run.Stop, Output: b.Run.Output}, cfg)
	if err != nil {
		return ev.Failf("setup-error", "assembling the scheduler failed: %v", err), st
	}
	defer o.Cancel()
	if initCmd == nil {
		return nil, st // nothing to back-process
	}
	H := o.Details.LinearHandoffBlockNum
	hashes := moduleHashes(b.Prog)
	stagesOfGraph := o.Graph.StagedUsedModules()
	st.stages = len(stagesOfGraph)

	pending := []world.PendingCmd{{Cmd: initCmd, Kind: world.Kind(initCmd)}}
	add := func(cmd loop.Cmd) {
		if cmd != nil {
			pending = append(pending, world.PendingCmd{Cmd: cmd, Kind: world.Kind(cmd)})
		}
	}
	completed := map[string]bool{} // "stage/segment" seen Completed
	lastMerged := map[int]int{}    // stage -> last merged segment
	mergedSeen := map[string]bool{}
	walkerMisses := 0
	var lastJobSeg = map[int]int{}
	lastEvent := ""
	quit := false
	var quitErr error
	bound := 400 + 200*len(stagesOfGraph)*int(b.Head/b.Seg+1)
	if c.Split {
		bound *= 2
	}

	safeUpdate := func(msg loop.Msg) (cmd loop.Cmd, f *ev.Failure) {
		defer func() {
			if r := recover(); r != nil {
				f = ev.Failf("invalid-state/panic-in-update", "Scheduler.Update(%T %+v) panicked: %v\nstates:\n%s", msg, msg, r, o.Sched.Stages.StatesString())
			}
		}()
		return o.Sched.Update(msg), nil
	}

	// Split mode models the real loop exactly: every command runs on its own goroutine and sends its message to a
	// FIFO channel; the loop handles the messages in arrival order. A step is then either "a pending command
	// completes" (its message joins the queue) or "the oldest message is handled". Without Split a command's
	// message is handled as soon as the command completes.
	var queue []loop.Msg
	deliver := func(msg loop.Msg) *ev.Failure {
		switch m := msg.(type) {
		case loop.BatchMsg:
			for _, cmd := range m {
				add(cmd)
			}
			return nil
		case loop.SequenceMsg:
			for _, cmd := range m {
				if cmd == nil {
					continue
				}
				sub := cmd()
				if c.Split {
					queue = append(queue, sub)
					continue
				}
				cmd2, f := safeUpdate(sub)
				if f != nil {
					return f
				}
				add(cmd2)
			}
			return nil
		case loop.QuitMsg:
			quit = true
			quitErr = m.VerifErr()
			return nil
		case nil:
			return nil
		}
		switch m := msg.(type) {
		case work.MsgJobFailed:
			return ev.Failf("job-failed", "job %+v failed: %v\nstates:\n%s", m.Unit, m.Error, o.Sched.Stages.StatesString())
		case work.MsgJobSucceeded:
			if lastEvent == "merge" {
				st.mergeBetweenJobs = true
			}
			lastEvent = "job"
		case stage.MsgMergeFailed:
			return ev.Failf("merge-failed", "merge of %+v failed: %v\nstates:\n%s", m.Unit, m.Error, o.Sched.Stages.StatesString())
		case stage.MsgMergeFinished:
			st.merges++
			key := fmt.Sprintf("%d/%d", m.Unit.Stage, m.Unit.Segment)
			if mergedSeen[key] {
				return ev.Failf("merge/repeated", "segment %d of stage %d merged twice", m.Unit.Segment, m.Unit.Stage)
			}
			mergedSeen[key] = true
			if prev, ok := lastMerged[m.Unit.Stage]; ok && m.Unit.Segment <= prev {
				return ev.Failf("merge/out-of-order", "stage %d merged segment %d after segment %d", m.Unit.Stage, m.Unit.Segment, prev)
			}
			lastMerged[m.Unit.Stage] = m.Unit.Segment
			lastEvent = "merge"
		}
		if _, isMiss := msg.(interface{ isMiss() }); isMiss {
			walkerMisses++
		}
		if fmt.Sprintf("%T", msg) == "execout.MsgFileNotPresent" {
			walkerMisses++
		}
		cmd, f := safeUpdate(msg)
		if f != nil {
			return f
		}
		add(cmd)
		// I3: a unit never leaves Completed
		states := o.Sched.Stages.StatesString()
		st.states[states] = true
		for si, row := range strings.Split(strings.TrimSpace(states), "\n") {
			cells := strings.TrimPrefix(strings.TrimPrefix(row, "S:"), "M:")
			for gi, ch := range cells {
				key := fmt.Sprintf("%d/%d", si, gi)
				if ch == 'C' {
					completed[key] = true
				} else if completed[key] {
					return ev.Failf("invalid-state/left-completed", "unit (stage row %d, segment column %d) left the Completed state (now %c)\nstates:\n%s", si, gi, ch, states)
				}
			}
		}
		return nil
	}

	runCmd := func(idx int) *ev.Failure {
		p := pending[idx]
		pending = append(pending[:idx], pending[idx+1:]...)

		heavy := p.Kind == "Work" || p.Kind == "CmdTryMerge" || p.Kind == "CmdDownloadCurrentSegment" || p.Kind == "cmdShutdownWhenComplete"
		if heavy {
			if err := o.Sched.Stages.WaitAsyncWork(); err != nil {
				return ev.Failf("async-work-error", "asynchronous snapshot write/partial deletion failed: %v", err)
			}
		}
		jobsBefore := len(o.JobStarts)
		var msg loop.Msg
		func() {
			defer func() {
				if r := recover(); r != nil {
					msg = nil
					quitErr = fmt.Errorf("command %s panicked: %v", p.Kind, r)
				}
			}()
			msg = p.Cmd()
		}()
		if quitErr != nil {
			return ev.Failf("invalid-state/panic-in-command", "%v\nstates:\n%s", quitErr, o.Sched.Stages.StatesString())
		}
		st.steps++
		// I2: a job that just started must have found the stores it loads
		if len(o.JobStarts) > jobsBefore {
			js := o.JobStarts[len(o.JobStarts)-1]
			st.jobs++
			for si := 0; si < js.Unit.Stage && si < len(stagesOfGraph); si++ {
				layer := stagesOfGraph[si].LastLayer()
				if !layer.IsStoreLayer() {
					continue
				}
				for _, mod := range layer {
					init := o.Graph.ModulesInitBlocks()[mod.Name]
					segStart := uint64(js.Unit.Segment) * b.Seg
					if init >= segStart {
						continue
					}
					ok, _ := o.StoreConfigs[mod.Name].ExistsFullKV(o.Ctx, segStart)
					if !ok {
						return ev.Failf("safety/job-before-dependency", "job for stage %d segment %d started but store %s (stage %d, initial block %d) has no complete snapshot at block %d\nstates:\n%s", js.Unit.Stage, js.Unit.Segment, mod.Name, si, init, segStart, o.Sched.Stages.StatesString())
					}
				}
			}
			if prev, ok := lastJobSeg[js.Unit.Stage]; ok && js.Unit.Segment < prev {
				st.outOfOrder = true
			}
			lastJobSeg[js.Unit.Stage] = js.Unit.Segment
		}
		if c.Split {
			queue = append(queue, msg)
			return nil
		}
		return deliver(msg)
	}

	for step := 0; !quit; step++ {
		if step > bound {
			return ev.Failf("liveness/step-bound", "no quit after %d steps; pending %v\nstates:\n%s", step, kindsOf(pending), o.Sched.Stages.StatesString()), st
		}
		// choosable commands: a walker download is only run when its file exists (or twice when it does not): it sleeps otherwise
		var choosable []int
		walkerIdx := -1
		for i, p := range pending {
			if p.Kind == "CmdDownloadCurrentSegment" {
				walkerIdx = i
				_, cur, _ := o.Sched.ExecOutWalker.Progress()
				rng := o.Plan.ReadOutSegmenter(o.Graph.ModulesInitBlocks()[b.Run.Output]).Range(cur)
				exists := false
				if rng != nil {
					_, err := os.Stat(outputFilePath(dir, hashes[b.Run.Output], rng.StartBlock, rng.ExclusiveEndBlock))
					exists = err == nil
				}
				if exists || walkerMisses < 2 {
					choosable = append(choosable, i)
				}
				continue
			}
			choosable = append(choosable, i)
		}
		nheld := 0
		if late != nil && !c.LateInside {
			nheld = late.Pending()
		}
		if len(queue) > 0 || nheld > 0 {
			// more options: the loop handles the oldest message; a held snapshot read completes
			ndeliver := 0
			if len(queue) > 0 {
				ndeliver = 1
			}
			n := len(choosable) + ndeliver + nheld
			k := pick(n) % n
			*picks = append(*picks, k)
			switch {
			case k < len(choosable):
				if f := runCmd(choosable[k]); f != nil {
					return f, st
				}
			case k < len(choosable)+ndeliver:
				msg := queue[0]
				queue = queue[1:]
				if f := deliver(msg); f != nil {
					return f, st
				}
			default:
				late.Release(k - len(choosable) - ndeliver)
				st.lateReleased++
			}
			continue
		}
		if len(choosable) == 0 {
			if walkerIdx >= 0 {
				return ev.Failf("liveness/waits-for-output-never-written", "only the cached-output walker is pending and its file does not exist: nothing will ever write it\nstates:\n%s", o.Sched.Stages.StatesString()), st
			}
			return ev.Failf("liveness/stalled", "no pending command and no quit\nstates:\n%s", o.Sched.Stages.StatesString()), st
		}
		k := pick(len(choosable))
		*picks = append(*picks, k)
		if f := runCmd(choosable[k%len(choosable)]); f != nil {
			return f, st
		}
	}
	if late != nil {
		if !c.LateInside {
			late.ReleaseAll() // reads still in flight complete before the stores are handed to the linear part
		} // else they are still in flight when the stores are handed over (completed by the deferred ReleaseAll)
		held, seen := late.Stats()
		st.lateHeld = held
		for k, v := range seen {
			ev.Get("C05", "Schedules").Count("squasher-"+k, v)
		}
	}
	if quitErr != nil {
		return ev.Failf("quit-with-error", "the scheduler quit with an error: %v\nstates:\n%s", quitErr, o.Sched.Stages.StatesString()), st
	}
	if err := o.Sched.Stages.WaitAsyncWork(); err != nil {
		return ev.Failf("async-work-error", "asynchronous work failed: %v", err), st
	}
	// I5a: stores built up to the hand-off
	if o.Plan.LinearPipeline != nil {
		final, err := o.Sched.FinalStoreMap(H)
		if err != nil {
			return ev.Failf("final-stores/error", "FinalStoreMap(%d): %v\nstates:\n%s", H, err, o.Sched.Stages.StatesString()), st
		}
		if H > 0 {
			refSpec := b.Run
			refSpec.Stop = H
			outInit := b.Prog.Mod(b.Run.Output).Initial
			if refSpec.Start >= H {
				refSpec.Start = H - 1
			}
			if refSpec.Start >= outInit && refSpec.Start < H {
				if Lh, err := reference(b.Prog, refSpec, b.Head); err == nil && Lh.last != nil && Lh.last.Block == H-1 {
					for name, kind := range kinds {
						fs, ok := final.Get(name)
						ws, ok2 := Lh.last.Stores[name]
						if !ok || !ok2 {
							continue
						}
						if d := sdsl.DiffStores(kind, sdsl.Snapshot(fs), ws); d != "" {
							return ev.Failf("final-stores/content", "store %s at the hand-off %d differs from the sequential execution: %s", name, H, d), st
						}
					}
				}
			}
		}
	}
	// I5b: what the walker streamed is the sequential execution's output below the hand-off
	ref := map[uint64]*world.Data{}
	for _, d := range L.res.DataMessages() {
		ref[d.Num] = d
	}
	seen := map[uint64]bool{}
	var prev int64 = -1
	for _, d := range o.DataMessages() {
		if int64(d.Num) <= prev {
			return ev.Failf("stream/order", "block %d streamed after %d", d.Num, prev), st
		}
		prev = int64(d.Num)
		seen[d.Num] = true
		w, ok := ref[d.Num]
		if !ok || d.Num >= H {
			return ev.Failf("stream/invented", "block %d streamed from cached outputs (hand-off %d) but the sequential execution has no such block below the hand-off", d.Num, H), st
		}
		if w.ID != d.ID || string(w.Payload) != string(d.Payload) {
			return ev.Failf("stream/payload-altered", "block %d: %q, sequential execution gives %q", d.Num, d.Payload, w.Payload), st
		}
	}
	if b.Run.Prod {
		for n, w := range ref {
			if n < H && !seen[n] && len(w.Payload) != 0 {
				return ev.Failf("stream/missing/non-empty-output", "block %d below the hand-off %d has a non-empty output but was not streamed", n, H), st
			}
		}
		// all requested outputs written
		if o.Plan.WriteExecOut != nil {
			sg := o.Plan.ReadOutSegmenter(o.Graph.ModulesInitBlocks()[b.Run.Output])
			for i := sg.FirstIndex(); i <= sg.LastIndex(); i++ {
				r := sg.Range(i)
				if r == nil || r.Len() == 0 {
					continue
				}
				if _, err := os.Stat(outputFilePath(dir, hashes[b.Run.Output], r.StartBlock, r.ExclusiveEndBlock)); err != nil {
					return ev.Failf("outputs/not-written", "the scheduler quit but the output file of segment %d %s was not written", i, r), st
				}
			}
		}
	}
	st.segments = int(b.Head/b.Seg) + 1
	return nil, st
}

func kindsOf(p []world.PendingCmd) (out []string) {
	for _, x := range p {
		out = append(out, x.Kind)
	}
	return
}

func genC05(t *rapid.T) c05Case {
	base := genC07(t)
	base.Subsets = base.Subsets[:1]
	if rapid.IntRange(0, 1).Draw(t, "emptycache") == 0 {
		base.Subsets = [][]int{{-1000000}} // resolves to keeping (almost) nothing? use explicit empty below
		base.Subsets = nil
	}
	base.Debris = nil
	if rapid.IntRange(0, 1).Draw(t, "chain") == 0 {
		// deep store chains: 2..3 store stages below the mapper, a production request starting a few segments in
		base.Prog = pgen.GenChain(t, rapid.IntRange(2, 3).Draw(t, "chaindepth"), []uint64{0, 0, 0, 1, base.Seg}, 2*base.Seg, 3*base.Seg, 3*base.Seg+1, 4*base.Seg+1)
		init := base.Prog.Mod("out").Initial
		base.Run = runSpec{Prod: rapid.IntRange(0, 3).Draw(t, "chainprod") > 0, Output: "out", Final: base.Head}
		base.Run.Start = init + rapid.Uint64Range(0, 5*base.Seg).Draw(t, "chainstart")
		base.Run.Stop = base.Run.Start + rapid.Uint64Range(1, 2*base.Seg).Draw(t, "chainlen")
		if base.Run.Stop > base.Head {
			base.Run.Stop = base.Head
		}
		if base.Run.Stop <= base.Run.Start {
			base.Run.Stop = base.Run.Start + 1
		}
	}
	if len(base.Subsets) > 0 && rapid.Bool().Draw(t, "dirwise") {
		// whole directories kept or gone: e.g. the snapshots of an upper stage present and those of a lower stage absent
		base.Subsets = [][]int{{-100000 - rapid.IntRange(0, 1<<16-1).Draw(t, "c05dirmask")}}
	}
	base.Run.Workers = rapid.IntRange(1, 3).Draw(t, "c05workers")
	c := c05Case{Base: base, Split: rapid.Bool().Draw(t, "split")}
	if rapid.IntRange(0, 2).Draw(t, "latereads") == 0 {
		// late completion of the squasher's racing snapshot read: needs a stage with two stores and a warm cache
		c.LateReads = true
		c.LateInside = rapid.IntRange(0, 2).Draw(t, "lateinside") > 0
		b := &c.Base
		b.Prog = pgen.GenChainOpts(t, rapid.IntRange(1, 2).Draw(t, "latedepth"), []uint64{0, 0, 1, b.Seg}, pgen.ChainOpts{Siblings: true})
		init := b.Prog.Mod("out").Initial
		b.Run = runSpec{Prod: rapid.Bool().Draw(t, "lateprod"), Output: "out", Final: b.Head, Workers: b.Run.Workers}
		b.Run.Start = init + rapid.Uint64Range(2*b.Seg, 4*b.Seg).Draw(t, "latestart")
		b.Run.Stop = b.Run.Start + rapid.Uint64Range(1, b.Seg).Draw(t, "latelen")
		if b.Run.Stop > b.Head {
			b.Run.Stop = b.Head
		}
		if b.Run.Stop <= b.Run.Start {
			b.Run.Stop = b.Run.Start + 1
		}
		if rapid.IntRange(0, 3).Draw(t, "latelinear") > 0 {
			b.Run.Final = b.Run.Start // a linear part follows: the merged stores are handed to it and compared
		}
		b.Subsets = [][]int{{-1 - rapid.IntRange(0, 900).Draw(t, "latesubset")}} // a prefix of the universe, completed by the rule of checkC05
	}
	return c
}

func TestC05(t *testing.T) {
	r := ev.Get("C05", "Schedules")
	r.Rule = "rapid: generated program with 1..3 stages and 2..5 segments, dev or production request, 1..3 workers, initial cache = a subset of the files of a complete run plus harvested partials (or empty); the real Scheduler/Stages/WorkerPool/Walker assembled as BuildParallelProcessor does and driven by a single-threaded loop in which rapid draws which pending command (job, merge, cached-output download, schedule/try-merge messages) completes next (in half of the cases the completed command's message joins a FIFO queue, as in the real loop, and handling the oldest message is one more choice at each step), asynchronous writes quiesced before each heavy command; invariants after every step: no panic/invalid transition, a started job finds every lower-stage store snapshot at its segment start, merges per stage consecutive and never repeated, no unit leaves Completed, termination within a step bound, never stalled; at quit: no error, FinalStoreMap(hand-off) typed-equal to the sequential execution, streamed outputs equal to it, every requested output file written; non-trivial = >=2 stages x >=2 segments and a job completed out of segment order or a merge completed between two job completions"
	rapid.Check(t, func(rt *rapid.T) {
		c := genC05(rt)
		var picks []int
		f, st := checkC05(c, func(n int) int { return rapid.IntRange(0, n-1).Draw(rt, "pick") }, &picks)
		c.Picks = picks
		nt := st.stages >= 2 && st.jobs >= 2 && (st.outOfOrder || st.mergeBetweenJobs)
		cl := []string{fmt.Sprintf("stages=%d", st.stages), fmt.Sprintf("jobs<=%d", bucketInt(st.jobs)), fmt.Sprintf("prod=%v", c.Base.Run.Prod)}
		if st.outOfOrder {
			cl = append(cl, "job-out-of-segment-order")
		}
		if st.mergeBetweenJobs {
			cl = append(cl, "merge-between-jobs")
		}
		if len(c.Base.Subsets) > 0 {
			cl = append(cl, "warm-cache")
		}
		if c.Split {
			cl = append(cl, "messages-queued-fifo")
		}
		if st.lateHeld > 0 {
			cl = append(cl, "snapshot-read-completed-late")
		}
		r.Count("late-snapshot-reads-held", st.lateHeld)
		if os.Getenv("VERIF_DEBUG_C05") != "" && c.LateReads {
			fmt.Printf("LATE prod=%v start=%d stop=%d seg=%d steps=%d jobs=%d merges=%d held=%d fail=%v subsets=%v\n", c.Base.Run.Prod, c.Base.Run.Start, c.Base.Run.Stop, c.Base.Seg, st.steps, st.jobs, st.merges, st.lateHeld, f != nil, c.Base.Subsets)
		}
		r.Count("steps", st.steps)
		r.Count("distinct-scheduler-states", len(st.states))
		r.Case(c, nt, cl...)
		r.Report(rt, c, f)
	})
}

func TestC05Replay(t *testing.T) {
	ev.Replay(t, "C05", "Schedules", func(c c05Case) *ev.Failure {
		i := 0
		var picks []int
		f, _ := checkC05(c, func(n int) int {
			if i < len(c.Picks) {
				i++
				return c.Picks[i-1] % n
			}
			return 0
		}, &picks)
		return f
	})
}
