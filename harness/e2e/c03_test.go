package e2e

// C03 (end to end) — reorgs: undo restores every store; clients converge on the canonical chain.

import (
	"bytes"
	"fmt"
	"github.com/streamingfast/substreams/pipeline/exec"
	"hash/fnv"
	"os"
	"strings"
	"testing"

	"github.com/streamingfast/bstream"
	pbsubstreamsrpc "github.com/streamingfast/substreams/pb/sf/substreams/rpc/v2"
	"github.com/streamingfast/substreams/storage/store"
	"pgregory.net/rapid"

	"verif/ev"
	"verif/pgen"
	"verif/world"
)

type c03Case struct {
	Prog   pgen.Prog         `json:"prog"`
	Blocks []world.ForkBlock `json:"blocks"` // arrival order; the first is the initial LIB (block 0)
	Output string            `json:"output"`
	// Prefix > 0: the fork history sits on top of Prefix final blocks (block Prefix is the initial LIB "b0"), the
	// request starts at Start inside or right after them with segments of Seg blocks, so that the stores the
	// forks work on were back-filled by segment jobs and handed over
	Prefix uint64 `json:"prefix,omitempty"`
	Seg    uint64 `json:"seg,omitempty"`
	Start  uint64 `json:"start,omitempty"`
	// SkipSeed != 0: heights are not contiguous along a branch (chains whose block numbers are slots): a block
	// chosen by the seed is numbered parent+2 instead of parent+1
	SkipSeed uint64 `json:"skip_seed,omitempty"`
	// Stop > 0: the request is bounded, its stop block is Prefix+Stop (inside the fork history): the stream ends when
	// the first block at or above it arrives, whatever happened to the blocks below it before
	Stop uint64 `json:"stop,omitempty"`
}

// applySkips renumbers the blocks (given parents first) so that some of them skip a height.
func applySkips(blocks []world.ForkBlock, seed uint64) []world.ForkBlock {
	if seed == 0 || len(blocks) == 0 {
		return blocks
	}
	orig := map[string]world.ForkBlock{}
	newNum := map[string]uint64{blocks[0].ID: blocks[0].Num}
	for _, b := range blocks {
		orig[b.ID] = b
	}
	out := []world.ForkBlock{blocks[0]}
	for _, b := range blocks[1:] {
		h := fnv.New64a()
		fmt.Fprintf(h, "%d/%s", seed, b.ID)
		skip := uint64(0)
		if h.Sum64()%3 == 0 {
			skip = 1
		}
		n := newNum[b.Parent] + 1 + skip
		newNum[b.ID] = n
		nb := b
		nb.Num = n
		// the LIB seen by the block: the same ancestor as before, under its new number
		nb.LibNum = newNum[blocks[0].ID]
		for a := b.Parent; a != ""; a = orig[a].Parent {
			if orig[a].Num <= b.LibNum {
				nb.LibNum = newNum[a]
				break
			}
		}
		out = append(out, nb)
	}
	return out
}

// prefixSteps are the final blocks 0..n-1 below the fork history.
func prefixSteps(n uint64) []world.Step {
	var out []world.Step
	for i := uint64(0); i < n; i++ {
		st := world.Step{Num: i, ID: fmt.Sprintf("p%d", i), Step: bstream.StepNewIrreversible, LIBNum: i, LIBID: fmt.Sprintf("p%d", i)}
		if i > 0 {
			st.Parent = fmt.Sprintf("p%d", i-1)
		}
		out = append(out, st)
	}
	return out
}

// genForkBlocks draws 2..4 branches over a few heights and a random arrival order (parents first).
func genForkBlocks(t *rapid.T) []world.ForkBlock {
	type branch struct {
		name    byte
		blocks  []world.ForkBlock
		next    int
		forkAt  int // index of the branch it forks from
		forkNum uint64
	}
	maxH := uint64(rapid.IntRange(4, 7).Draw(t, "heights"))
	lag := rapid.SampledFrom([]uint64{100, 100, 4, 3, 2}).Draw(t, "liblag")
	nb := rapid.IntRange(2, 4).Draw(t, "nbranches")
	var branches []*branch
	idOf := func(name byte, num uint64) string { return fmt.Sprintf("%c%d", name, num) }
	for i := 0; i < nb; i++ {
		br := &branch{name: byte('a' + i)}
		parentID, from := "b0", uint64(1)
		parentBranch := -1
		if i > 0 {
			parentBranch = rapid.IntRange(0, i-1).Draw(t, "forkfrom")
			pb := branches[parentBranch]
			k := rapid.IntRange(0, len(pb.blocks)-1).Draw(t, "forkpoint") // fork after pb.blocks[k-1] (k = 0: after the branch's own parent)
			if k == 0 && pb.blocks[0].Parent != "b0" {
				parentID, from = pb.blocks[0].Parent, pb.blocks[0].Num
			} else {
				// never fork at the initial LIB itself: in this set-up (inclusive initial LIB, as in the repository's own
				// fork test) the resolver does not hold that block and reports a nil junction for such a reorg
				if k == 0 {
					k = 1
				}
				parentID, from = pb.blocks[k-1].ID, pb.blocks[k-1].Num+1
			}
		}
		br.forkAt, br.forkNum = parentBranch, from
		length := rapid.IntRange(1, int(maxH)).Draw(t, "branchlen")
		for n := from; n < from+uint64(length) && n <= maxH+2; n++ {
			libNum := uint64(0)
			if n > lag {
				libNum = n - lag
			}
			br.blocks = append(br.blocks, world.ForkBlock{Num: n, ID: idOf(br.name, n), Parent: parentID, LibNum: libNum})
			parentID = idOf(br.name, n)
		}
		branches = append(branches, br)
	}
	out := []world.ForkBlock{{Num: 0, ID: "b0", Parent: "", LibNum: 0}}
	arrived := map[string]bool{"b0": true}
	for {
		var ready []int
		for i, br := range branches {
			if br.next < len(br.blocks) && arrived[br.blocks[br.next].Parent] {
				ready = append(ready, i)
			}
		}
		if len(ready) == 0 {
			break
		}
		i := ready[rapid.IntRange(0, len(ready)-1).Draw(t, "arrival")]
		// bursts make one branch overtake the other (that is what triggers a reorg)
		burst := rapid.IntRange(1, 3).Draw(t, "burst")
		for k := 0; k < burst && branches[i].next < len(branches[i].blocks); k++ {
			b := branches[i].blocks[branches[i].next]
			out = append(out, b)
			arrived[b.ID] = true
			branches[i].next++
		}
	}
	return out
}

// genDuel draws a flip-flop history: two (or three) branches forking above a1 overtake each other in turn, so the
// same blocks are applied, undone, applied again and undone again.
func genDuel(t *rapid.T) []world.ForkBlock {
	out := []world.ForkBlock{{Num: 0, ID: "b0"}}
	trunk := rapid.IntRange(1, 3).Draw(t, "trunk")
	parent := "b0"
	for n := 1; n <= trunk; n++ {
		id := fmt.Sprintf("t%d", n)
		out = append(out, world.ForkBlock{Num: uint64(n), ID: id, Parent: parent})
		parent = id
	}
	nside := rapid.IntRange(2, 3).Draw(t, "sides")
	tipID := make([]string, nside)
	tipNum := make([]uint64, nside)
	for i := range tipID {
		tipID[i], tipNum[i] = parent, uint64(trunk)
	}
	lag := rapid.SampledFrom([]uint64{100, 100, 6, 4}).Draw(t, "liblag")
	rounds := rapid.IntRange(2, 6).Draw(t, "rounds")
	highest := uint64(trunk)
	for r := 0; r < rounds; r++ {
		side := r % nside
		if nside == 3 && rapid.Bool().Draw(t, "pickside") {
			side = rapid.IntRange(0, nside-1).Draw(t, "side")
		}
		target := highest + uint64(rapid.IntRange(1, 2).Draw(t, "overtake"))
		for tipNum[side] < target {
			n := tipNum[side] + 1
			id := fmt.Sprintf("%c%d", 'a'+side, n)
			lib := uint64(0)
			if n > lag {
				lib = n - lag
			}
			out = append(out, world.ForkBlock{Num: n, ID: id, Parent: tipID[side], LibNum: lib})
			tipID[side], tipNum[side] = id, n
		}
		highest = tipNum[side]
	}
	return out
}

func genC03(t *rapid.T) c03Case {
	c := c03Case{}
	c.Prog = pgen.Gen(t, pgen.Opts{MinMods: 1, MaxMods: 4, InitialBlocks: []uint64{1}, ForceStoreOutput: true})
	for i := range c.Prog.Graph.Mods {
		c.Prog.Graph.Mods[i].Initial = 1 // every module starts at the request's start block: no back-processing
	}
	if rapid.IntRange(0, 2).Draw(t, "latestores") == 0 {
		// some stores start a few blocks later, inside the fork history: a reorg may undo a store's very first block.
		// Only stores that read the chain themselves (always an input available), never the output module.
		for i := range c.Prog.Graph.Mods {
			m := &c.Prog.Graph.Mods[i]
			if m.Kind != "store" {
				continue
			}
			hasSource := false
			for _, in := range m.Inputs {
				if in.T == "source" {
					hasSource = true
				}
			}
			if hasSource {
				m.Initial = rapid.SampledFrom([]uint64{1, 2, 3, 4}).Draw(t, "storeinit")
			}
		}
		// every mapper may become the output module: all of them must remain acceptable (a mapper that starts at 1 and
		// reads nothing but stores that start later has no input available at its initial block, and is rejected)
		for _, out := range c.Prog.Maps() {
			if _, err := exec.NewOutputModuleGraph(out, false, c.Prog.Modules(), 0); err != nil {
				for i := range c.Prog.Graph.Mods {
					c.Prog.Graph.Mods[i].Initial = 1
				}
				break
			}
		}
	}
	maps := c.Prog.Maps()
	c.Output = maps[len(maps)-1]
	if rapid.Bool().Draw(t, "anyoutput") {
		c.Output = rapid.SampledFrom(maps).Draw(t, "output")
	}
	// stores that shrink and delete: more delete_prefix
	for name, b := range c.Prog.Beh {
		if b.Kind == "store" {
			b.DelPct = rapid.SampledFrom([]int{10, 25, 40}).Draw(t, "delpct")
			c.Prog.Beh[name] = b
		}
	}
	if rapid.IntRange(0, 9).Draw(t, "duel") < 5 {
		c.Blocks = genDuel(t)
	} else {
		c.Blocks = genForkBlocks(t)
	}
	return c
}

type c03Stats struct {
	undos, flipflop, stalled int
	undoOfDeleteOrResize     bool
	maxDepth                 int
	backfillJobs             int
}

// chainKey identifies a canonical chain prefix.
func chainKey(ids []string) string { return strings.Join(ids, ",") }

type c03Ref struct {
	stores map[string]*storeSnap    // by chain prefix
	data   map[string]*world.Data   // by block id (payload of that block on its chain is a function of the chain up to it)
	byKey  map[string][]*world.Data // full message list by chain
}

// runChainReference executes the fork-free chain (blocks given by id/num/parent) and records the stores after every block.
func runChainReference(p pgen.Prog, output string, chain []world.Step, ref *c03Ref, start, prefix, stop uint64) error {
	dir := newDir()
	defer os.RemoveAll(dir)
	var ids []string
	cfg := world.Config{Dir: dir, Seg: 1_000_000, Workers: 1, Final: 0, Steps: chain}
	cfg.OnBlock = func(st world.Step, m store.Map) {
		if st.Num <= prefix && prefix > 0 {
			return
		}
		ids = append(ids, st.ID)
		if m != nil {
			ref.stores[chainKey(ids)] = snapStores(st.Num, m)
		}
	}
	res := world.Run(p.Modules(), world.Request{Prod: false, Start: int64(start), Stop: stop, Output: output}, cfg)
	if res.Err != nil {
		return res.Err
	}
	var all []string
	for _, st := range chain {
		if st.Num >= prefix+1 {
			all = append(all, st.ID)
		}
	}
	ref.byKey[chainKey(all)] = res.DataMessages()
	return nil
}

func checkC03(c c03Case) (*ev.Failure, c03Stats) {
	var st c03Stats
	P, start, seg := c.Prefix, uint64(1), uint64(1_000_000)
	blocks := applySkips(c.Blocks, c.SkipSeed)
	if P > 0 {
		start, seg = c.Start, c.Seg
		src := blocks
		blocks = nil
		for i, b := range src {
			b.Num += P
			b.LibNum += P
			if i == 0 {
				b.Parent = fmt.Sprintf("p%d", P-1)
			}
			blocks = append(blocks, b)
		}
	}
	steps, err := world.ForkSteps(blocks)
	if err != nil {
		ev.Get("C03", "Forks").Discard("fork-resolver-rejected-history")
		return nil, st
	}
	steps = append(prefixSteps(P), steps...)
	stopAbs := uint64(0)
	if c.Stop > 0 {
		stopAbs = P + c.Stop
		if stopAbs <= start {
			stopAbs = start + 1
		}
	}
	kinds := c.Prog.StoreKinds()
	byID := map[string]world.ForkBlock{}
	for _, b := range blocks {
		byID[b.ID] = b
	}
	ref := &c03Ref{stores: map[string]*storeSnap{}, byKey: map[string][]*world.Data{}}
	ensureRef := func(ids []string) error {
		if _, ok := ref.stores[chainKey(ids)]; ok || len(ids) == 0 {
			return nil
		}
		chain := append(prefixSteps(P), world.Step{Num: P, ID: "b0", Step: bstream.StepNewIrreversible, LIBNum: P, LIBID: "b0"})
		if P > 0 {
			chain[P].Parent = fmt.Sprintf("p%d", P-1)
		}
		for _, id := range ids {
			b := byID[id]
			chain = append(chain, world.Step{Num: b.Num, ID: b.ID, Parent: b.Parent, Step: bstream.StepNewIrreversible, LIBNum: b.Num, LIBID: b.ID})
		}
		return runChainReference(c.Prog, c.Output, chain, ref, start, P, stopAbs)
	}

	seenNew := map[string]int{}
	for _, s := range steps {
		switch {
		case s.Step.Matches(bstream.StepUndo):
			st.undos++
		case s.Step == bstream.StepStalled:
			st.stalled++
		case s.Step.Matches(bstream.StepNew):
			seenNew[s.ID]++
			if seenNew[s.ID] == 2 {
				st.flipflop++
			}
		}
	}

	for _, prod := range []bool{false, true} {
		mode := "dev"
		if prod {
			mode = "prod"
		}
		dir := newDir()
		var canonical []string // ids of the blocks >= 1 of the current chain
		var failure *ev.Failure
		final := uint64(1)
		if P > 0 {
			final = P
		}
		cfg := world.Config{Dir: dir, Seg: seg, Workers: 2, Final: final, Steps: steps}
		cfg.OnBlock = func(s world.Step, m store.Map) {
			if failure != nil || s.Num < P+1 {
				return
			}
			switch {
			case s.Step.Matches(bstream.StepNew):
				canonical = append(canonical, s.ID)
			case s.Step.Matches(bstream.StepUndo):
				if n := len(canonical); n > 0 && canonical[n-1] == s.ID {
					canonical = canonical[:n-1]
				} else {
					failure = ev.Failf("harness/undo-not-top", "%s: undo of %s but the chain is %v", mode, s.ID, canonical)
					return
				}
				if d := len(canonical); st.maxDepth < len(seenNew)-d {
					st.maxDepth = len(seenNew) - d
				}
			default:
				return // irreversible / stalled: the chain does not change
			}
			if m == nil || len(canonical) == 0 {
				return
			}
			if err := ensureRef(canonical); err != nil {
				failure = ev.Failf("reference-error", "fork-free execution of %v failed: %v", canonical, err)
				return
			}
			want := ref.stores[chainKey(canonical)]
			got := snapStores(s.Num, m)
			if want == nil {
				return
			}
			for name, kind := range kinds {
				ws, ok1 := want.Stores[name]
				gs, ok2 := got.Stores[name]
				if !ok1 || !ok2 {
					continue
				}
				if d := sdslDiff(kind, gs, ws); d != "" {
					failure = ev.Failf("stores/content-after-"+stepName(s.Step), "%s: after %s of block %s the store %s differs from executing only the canonical chain %v: %s", mode, stepName(s.Step), s.ID, name, canonical, d)
					return
				}
				if got.Sizes[name] != byteSize(gs) {
					failure = ev.Failf("stores/size-after-"+stepName(s.Step), "%s: after %s of block %s the store %s reports %d bytes, its content is %d bytes (chain %v)", mode, stepName(s.Step), s.ID, name, got.Sizes[name], byteSize(gs), canonical)
					return
				}
			}
		}
		res := world.Run(c.Prog.Modules(), world.Request{Prod: prod, Start: int64(start), Stop: stopAbs, Output: c.Output}, cfg)
		os.RemoveAll(dir)
		if failure != nil {
			return failure, st
		}
		if res.Err != nil {
			return ev.Failf("run-error", "%s request over the fork history failed: %v", mode, res.Err), st
		}
		if P == 0 && res.Session != nil && res.Session.LinearHandoffBlock != 1 {
			ev.Get("C03", "Forks").Discard("handoff-not-at-start")
			return nil, st
		}
		if P > 0 && res.Session != nil && res.Session.LinearHandoffBlock > P {
			ev.Get("C03", "Forks").Discard("handoff-above-the-final-prefix")
			return nil, st
		}
		if P > 0 {
			st.backfillJobs += len(res.Jobs)
		}

		// the client: keeps data messages, drops what is above last_valid_block on an undo signal
		var held []*world.Data
		undoSinceHeight := map[uint64]bool{}
		for _, m := range res.Messages() {
			if m.Undo != nil {
				lv := m.Undo.LastValidBlock
				ok := false
				for _, h := range held {
					if h.Num == lv.Number && h.ID == lv.Id {
						ok = true
					}
				}
				if !ok && len(held) > 0 && held[0].Num > lv.Number {
					ok = true // a block below the client's first one: everything it holds goes (with contiguous heights and a junction right below, "the one before its first")
				}
				if !ok && len(held) == 0 {
					ok = true
				}
				if !ok && P > 0 && lv.Number <= P {
					ok = true // a block of the final prefix, which this client does not track
				}
				if !ok && lv.Number+1 < start {
					ok = true // the junction lies below the requested range: everything the client holds goes
				}
				if !ok {
					return ev.Failf("client/undo-designates-unknown-block", "%s: undo signal designates block %d/%s which the client does not hold (holds %v)", mode, lv.Number, lv.Id, nums(held)), st
				}
				n := 0
				for _, h := range held {
					if h.Num <= lv.Number {
						held[n] = h
						n++
					}
				}
				held = held[:n]
				for h := range undoSinceHeight {
					if h > lv.Number {
						delete(undoSinceHeight, h)
					}
				}
				continue
			}
			d := m.Data
			if d.Num <= P && P > 0 {
				continue // the final blocks below the fork history: judged by C01/C04, not here
			}
			if undoSinceHeight[d.Num] {
				return ev.Failf("client/two-blocks-one-height", "%s: a second block at height %d (%s) was delivered without an undo in between", mode, d.Num, d.ID), st
			}
			if len(held) > 0 && held[len(held)-1].Num >= d.Num {
				return ev.Failf("client/two-blocks-one-height", "%s: block %d/%s delivered while the client still holds block %d/%s", mode, d.Num, d.ID, held[len(held)-1].Num, held[len(held)-1].ID), st
			}
			undoSinceHeight[d.Num] = true
			held = append(held, d)
		}
		if stopAbs != 0 {
			// a bounded request ends when the first block at or above the stop block arrives: the chain the client must
			// hold is the canonical chain of the signals up to that one, whatever the stream actually processed
			canonical = nil
			for _, s := range steps {
				if s.Num < P+1 {
					continue
				}
				if s.Step.Matches(bstream.StepNew) {
					if s.Num >= stopAbs {
						break
					}
					canonical = append(canonical, s.ID)
				} else if s.Step.Matches(bstream.StepUndo) && len(canonical) > 0 {
					canonical = canonical[:len(canonical)-1]
				}
			}
		}
		// at the end: exactly the outputs of the canonical chain
		if err := ensureRef(canonical); err != nil {
			return ev.Failf("reference-error", "fork-free execution of %v failed: %v", canonical, err), st
		}
		want := ref.byKey[chainKey(canonical)]
		if want == nil && len(canonical) > 0 {
			// the final chain was only seen as a prefix of a longer reference: run it on its own
			delete(ref.stores, chainKey(canonical))
			if err := ensureRef(canonical); err != nil {
				return ev.Failf("reference-error", "%v", err), st
			}
			want = ref.byKey[chainKey(canonical)]
		}
		if P > 0 {
			var w2 []*world.Data
			for _, d := range want {
				if d.Num > P {
					w2 = append(w2, d)
				}
			}
			want = w2
		}
		if len(held) != len(want) {
			return ev.Failf("client/diverged", "%s: the client ends with blocks %v, the canonical chain %v has outputs for %v", mode, ids(held), canonical, ids(want)), st
		}
		for i := range want {
			if held[i].Num != want[i].Num || held[i].ID != want[i].ID || !bytes.Equal(held[i].Payload, want[i].Payload) {
				return ev.Failf("client/diverged", "%s: the client's block %d/%s payload %q differs from the canonical chain's %d/%s %q", mode, held[i].Num, held[i].ID, held[i].Payload, want[i].Num, want[i].ID, want[i].Payload), st
			}
		}
		if !prod {
			// classification: does an undone block carry a delete or a size-changing update? (dev mode shows the deltas)
			undone := map[string]bool{}
			for _, s := range steps {
				if s.Step.Matches(bstream.StepUndo) {
					undone[s.ID] = true
				}
			}
			for _, m := range res.Messages() {
				if m.Data == nil || !undone[m.Data.ID] || m.Data.Debug == nil {
					continue
				}
				for _, so := range m.Data.Debug.DebugStoreOutputs {
					for _, d := range so.DebugStoreDeltas {
						if d.Operation == pbsubstreamsrpc.StoreDelta_DELETE || (d.Operation == pbsubstreamsrpc.StoreDelta_UPDATE && len(d.OldValue) != len(d.NewValue)) {
							st.undoOfDeleteOrResize = true
						}
					}
				}
			}
		}
	}
	return nil, st
}

func ids(ds []*world.Data) (out []string) {
	for _, d := range ds {
		out = append(out, d.ID)
	}
	return
}

func stepName(s bstream.StepType) string {
	switch {
	case s.Matches(bstream.StepUndo):
		return "undo"
	case s.Matches(bstream.StepNew):
		return "new"
	}
	return s.String()
}

func TestC03Forks(t *testing.T) {
	r := ev.Get("C03", "Forks")
	r.Rule = "rapid: fork trees of 2..4 branches over 4..9 heights (branches fork from earlier branches, same block ids re-applied on flip-flops), arrival order a random interleaving with bursts, LIB progress with lag 2/3/4/never, in one case out of three heights skipped along a branch (a block numbered parent+2), turned into new/undo/irreversible/stalled signals by the real bstream/forkable; stores whose operations depend on the block id (10..40% delete_prefix); a dev-mode and a production-mode tier1 request whose start equals the hand-off; oracle (a) after every new/undo step every store is typed-equal, with exact size, to the stores of a fork-free execution of the current canonical chain (memoised per chain prefix), (b) a simulated client that drops blocks above last_valid_block on undo always knows the designated block, never sees two blocks of one height without an undo, and ends with exactly the outputs of the final canonical chain; non-trivial = the history undoes a block whose deltas include a delete or a size-changing update"
	rapid.Check(t, func(rt *rapid.T) {
		c := genC03(rt)
		if rapid.IntRange(0, 2).Draw(rt, "skips") == 0 {
			c.SkipSeed = rapid.Uint64Range(1, 1<<30).Draw(rt, "skipseed")
		}
		if rapid.IntRange(0, 2).Draw(rt, "bounded") == 0 {
			c.Stop = rapid.Uint64Range(2, 8).Draw(rt, "stop")
		}
		r.Begin(c)
		f, st := checkC03(c)
		cl := []string{fmt.Sprintf("undos<=%d", bucketInt(st.undos))}
		if c.Stop != 0 {
			cl = append(cl, "stop-block-inside-the-fork-history")
		}
		if c.SkipSeed != 0 {
			cl = append(cl, "heights-skipped")
		}
		if st.flipflop > 0 {
			cl = append(cl, "flip-flop(block re-applied)")
		}
		if st.stalled > 0 {
			cl = append(cl, "stalled")
		}
		r.Case(c, st.undoOfDeleteOrResize, cl...)
		r.Report(rt, c, f)
	})
}

// TestC03ForksBackfill: the same fork histories on top of a final prefix that is back-filled by segment jobs.
func TestC03ForksBackfill(t *testing.T) {
	r := ev.Get("C03", "ForksBackfill")
	r.Rule = "as Forks, but the fork history sits on top of 4..14 final blocks, modules start at block 1, segments of 2..4 blocks, the request starts inside the final prefix, right after it or up to three blocks into the fork history (forks then happen below the output gate) and the recent final block is the top of the prefix: the stores the forks work on were built by segment jobs and handed over (or, in development mode, rebuilt from the boundary below the start); same oracles on the fork region; non-trivial = at least one segment job ran and the history undoes a block whose deltas include a delete or a size-changing update"
	rapid.Check(t, func(rt *rapid.T) {
		c := genC03(rt)
		c.Seg = rapid.Uint64Range(2, 4).Draw(rt, "seg")
		c.Prefix = rapid.Uint64Range(2*c.Seg, 3*c.Seg+2).Draw(rt, "prefix")
		c.Start = rapid.Uint64Range(1, c.Prefix+4).Draw(rt, "start") // up to three blocks inside the fork history: forks below the output gate
		if rapid.IntRange(0, 2).Draw(rt, "skips") == 0 {
			c.SkipSeed = rapid.Uint64Range(1, 1<<30).Draw(rt, "skipseed")
		}
		r.Begin(c)
		f, st := checkC03(c)
		cl := []string{fmt.Sprintf("undos<=%d", bucketInt(st.undos)), fmt.Sprintf("backfill-jobs<=%d", bucketInt(st.backfillJobs))}
		if c.SkipSeed != 0 {
			cl = append(cl, "heights-skipped")
		}
		if st.flipflop > 0 {
			cl = append(cl, "flip-flop(block re-applied)")
		}
		r.Case(c, st.undoOfDeleteOrResize && st.backfillJobs > 0, cl...)
		r.Report(rt, c, f)
	})
}

func TestC03ForksBackfillReplay(t *testing.T) {
	ev.Replay(t, "C03", "ForksBackfill", func(c c03Case) *ev.Failure { f, _ := checkC03(c); return f })
}

func TestC03ForksReplay(t *testing.T) {
	ev.Replay(t, "C03", "Forks", func(c c03Case) *ev.Failure { f, _ := checkC03(c); return f })
}
