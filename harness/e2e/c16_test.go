package e2e

// C16 — worker failures never corrupt the stream or truncate it silently.

import (
	"context"
	"fmt"
	"os"
	"strings"
	"sync"
	"testing"
	"time"

	"connectrpc.com/connect"
	"github.com/streamingfast/substreams/service"
	"pgregory.net/rapid"

	"verif/ev"
	"verif/gdsl"
	"verif/pgen"
	"verif/world"
)

type c16Case struct {
	Prog    pgen.Prog     `json:"prog"`
	Seg     uint64        `json:"seg"`
	Head    uint64        `json:"head"`
	Run     runSpec       `json:"run"`
	Faults  []world.Fault `json:"faults,omitempty"`   // transient faults
	FailMod string        `json:"fail_mod,omitempty"` // deterministic failure: this module ...
	FailAt  uint64        `json:"fail_at,omitempty"`  // ... fails at this block
	Limit   uint64        `json:"limit,omitempty"`    // tier2 refuses a call while Limit others are in flight (0 = no limit)
	// Warm: an earlier, fault-free request for this (upstream) module fills the cache first, so that the jobs of the
	// judged request run from cached outputs instead of reading the chain
	Warm string `json:"warm,omitempty"`
}

type c16Batch struct {
	Cases []c16Case `json:"cases"`
}

func genC16One(t *rapid.T) c16Case {
	c := c16Case{Seg: rapid.Uint64Range(2, 5).Draw(t, "seg")}
	c.Head = 6*c.Seg + 3
	if rapid.IntRange(0, 7).Draw(t, "cachedupstream") == 0 {
		// a module that reads only a mapper fails deterministically in a job that runs from that mapper's cached outputs
		g := gdsl.Graph{Mods: []gdsl.Mod{
			{Name: "map_a", Kind: "map", Entry: "map_a", Inputs: []gdsl.In{{T: "source", Ref: gdsl.BlockType}}},
			{Name: "map_c", Kind: "map", Entry: "map_c", Inputs: []gdsl.In{{T: "map", Ref: "map_a"}}},
		}}
		seed := rapid.Uint64Range(1, 1<<30).Draw(t, "cuseed")
		c.Prog = pgen.Prog{Graph: g, Seed: seed, Beh: map[string]dslrtBehaviour{"map_a": {Kind: "map", Seed: seed*1000 + 1}, "map_c": {Kind: "map", Seed: seed*1000 + 2}}}
		c.Run = runSpec{Prod: true, Output: "map_c", Workers: rapid.IntRange(1, 3).Draw(t, "cuworkers"), Final: c.Head}
		c.Run.Start = rapid.Uint64Range(0, c.Seg).Draw(t, "custart")
		c.Run.Stop = c.Run.Start + rapid.Uint64Range(c.Seg, 3*c.Seg).Draw(t, "culen")
		c.Warm, c.FailMod = "map_a", "map_c"
		c.FailAt = rapid.Uint64Range(c.Run.Start+1, c.Run.Stop-1).Draw(t, "cufailat")
		return c
	}
	inits := []uint64{0, 0, 1, c.Seg, c.Seg + 1}
	c.Prog = pgen.Gen(t, pgen.Opts{MinMods: 1, MaxMods: 4, InitialBlocks: inits, ForceStoreOutput: true})
	if rapid.IntRange(0, 3).Draw(t, "c16siblings") == 0 {
		// every stage holds two stores: the modules of one layer are executed concurrently and their errors collected
		// afterwards, another path than the one a module alone in its layer takes
		c.Prog = pgen.GenChainOpts(t, rapid.IntRange(1, 2).Draw(t, "c16depth"), inits, pgen.ChainOpts{Siblings: true})
	}
	c.Run = genRun(t, c.Prog, c.Seg, c.Head)
	c.Run.JobOrder = nil
	c.Run.Workers = rapid.IntRange(1, 3).Draw(t, "c16workers")
	if c.Run.Workers > 1 && rapid.IntRange(0, 2).Draw(t, "limited") == 0 {
		c.Limit = uint64(rapid.IntRange(1, c.Run.Workers-1).Draw(t, "limit")) // fewer slots than workers: real overload rejections
	}
	// make sure something is back-filled: 2..4 segments below the hand-off
	if c.Run.Stop == 0 || c.Run.Stop > c.Run.Start+3*c.Seg {
		c.Run.Stop = c.Run.Start + rapid.Uint64Range(c.Seg, 3*c.Seg).Draw(t, "c16len")
	}
	if rapid.IntRange(0, 3).Draw(t, "c16prod") > 0 {
		c.Run.Prod = true
		c.Run.Final = c.Head
	} else if c.Run.Start < c.Seg {
		c.Run.Start += c.Seg
		if c.Run.Stop <= c.Run.Start {
			c.Run.Stop = c.Run.Start + c.Seg
		}
	}
	if rapid.IntRange(0, 2).Draw(t, "deterministic") == 0 {
		// deterministic failure of a module that runs on every block from its initial block
		var cands []string
		for _, m := range c.Prog.Graph.Mods {
			if alwaysRuns(c.Prog, m.Name) && (m.Name == c.Run.Output || c.Prog.Graph.Ancestors(c.Run.Output)[m.Name]) {
				cands = append(cands, m.Name)
			}
		}
		if len(cands) > 0 {
			c.FailMod = rapid.SampledFrom(cands).Draw(t, "failmod")
			// a block of the requested range is executed whatever the strategy; blocks below the start are only
			// executed when some store has to be built from there
			lo := c.Prog.Mod(c.FailMod).Initial
			if lo < c.Run.Start {
				lo = c.Run.Start
			}
			if lo < 1 {
				lo = 1
			}
			hi := c.Run.Stop - 1
			if c.FailMod != c.Run.Output && hi > c.Run.Start {
				// an upstream module may also fail before the start block (inside the back-filled part)
			}
			if hi < lo {
				// no block of the requested range on which the module runs: a failure outside the range may never be
				// executed at all, nothing to demand
				c.FailMod = ""
				goto transient
			}
			c.FailAt = rapid.Uint64Range(lo, hi).Draw(t, "failat")
			// half of the time transient faults hit the first jobs as well: the job that fails deterministically
			// may be a retry, the error must still be the deterministic one
			if rapid.Bool().Draw(t, "mixed") {
				n := rapid.IntRange(1, 2).Draw(t, "nmixed")
				for i := 0; i < n; i++ {
					c.Faults = append(c.Faults, world.Fault{
						Call:  rapid.IntRange(0, 3).Draw(t, "mixedcall"),
						Kind:  rapid.SampledFrom([]string{"before", "header", "overloaded", "drop-mid", "drop-mid-canceled", "drop-mid-eof"}).Draw(t, "mixedkind"),
						After: rapid.IntRange(0, 2).Draw(t, "mixedafter"),
					})
				}
			}
			return c
		}
	}
transient:
	n := rapid.IntRange(1, 3).Draw(t, "nfaults")
	for i := 0; i < n; i++ {
		c.Faults = append(c.Faults, world.Fault{
			Call:  rapid.IntRange(0, 6).Draw(t, "faultcall"),
			Kind:  rapid.SampledFrom([]string{"before", "header", "overloaded", "drop-mid", "drop-mid-eof", "drop-mid-canceled", "drop-after-done", "drop-after-done"}).Draw(t, "faultkind"),
			After: rapid.IntRange(0, 3).Draw(t, "faultafter"),
		})
	}
	return c
}

type c16Stats struct {
	jobs           int
	calls          int
	faultsHit      int
	hitAfterWrite  bool
	insideBackfill bool
}

func runC16(c c16Case, faults []world.Fault, failMod string, failAt uint64) (runOut, *world.Remote) {
	dir := newDir()
	defer os.RemoveAll(dir)
	prog := c.Prog
	if c.Warm != "" {
		// same program (same identifiers) but nothing fails: the upstream module does not depend on the failing one
		warmCfg := world.Config{Dir: dir, Seg: c.Seg, Workers: 1, Final: c.Run.Final, Steps: chainFor(c.Run, c.Head), Timeout: 60 * time.Second}
		wp := c.Prog
		if failMod != "" {
			nb := map[string]dslrtBehaviour{}
			for k, v := range wp.Beh {
				nb[k] = v
			}
			b := nb[failMod]
			b.FailAt = int64(failAt)
			nb[failMod] = b
			wp.Beh = nb
		}
		world.Run(wp.Modules(), world.Request{Prod: true, Start: int64(c.Run.Start), Stop: c.Run.Stop, Output: c.Warm}, warmCfg)
	}
	if failMod != "" {
		nb := map[string]dslrtBehaviour{}
		for k, v := range prog.Beh {
			nb[k] = v
		}
		b := nb[failMod]
		b.FailAt = int64(failAt)
		nb[failMod] = b
		prog.Beh = nb
	}
	remote := &world.Remote{Faults: faults, Limit: c.Limit}
	cfg := world.Config{Dir: dir, Seg: c.Seg, Workers: c.Run.Workers, Final: c.Run.Final, Steps: chainFor(c.Run, c.Head), Remote: remote, Timeout: 60 * time.Second}
	if failMod != "" {
		// a request whose module fails deterministically ends at the first execution of that block; one that keeps
		// re-sending the job makes "progress" for ever: four minutes of that are enough
		cfg.MaxWindows = 4
	}
	var out runOut
	out.res = world.Run(prog.Modules(), world.Request{Prod: c.Run.Prod, Start: int64(c.Run.Start), Stop: c.Run.Stop, Output: c.Run.Output}, cfg)
	return out, remote
}

func checkC16One(c c16Case) (*ev.Failure, c16Stats) {
	var st c16Stats
	L, err := reference(c.Prog, c.Run, c.Head)
	if err != nil {
		ev.Get("C16", "Faults").Discard("no-pure-linear-reference")
		return nil, st
	}
	if c.FailMod != "" {
		S, _ := runC16(c, c.Faults, c.FailMod, c.FailAt)
		st.jobs = len(S.res.Jobs)
		if S.res.Hung {
			return ev.Failf("deterministic/hang", "module %s fails at block %d: the request did not end (a deterministic failure must not be retried for ever): %v", c.FailMod, c.FailAt, firstLine(S.res.Err)), st
		}
		if S.res.Err == nil {
			return ev.Failf("deterministic/no-error", "module %s fails at block %d but the request %+v ended without error (%d messages)", c.FailMod, c.FailAt, c.Run, len(S.res.DataMessages())), st
		}
		ce := service.VerifToConnectError(context.Background(), S.res.Err)
		if connect.CodeOf(ce) != connect.CodeInvalidArgument {
			return ev.Failf("deterministic/wrong-code", "module %s fails at block %d: the request ends with code %v, want invalid_argument: %v", c.FailMod, c.FailAt, connect.CodeOf(ce), firstLine(S.res.Err)), st
		}
		if S.res.AfterErr != 0 {
			return ev.Failf("deterministic/data-after-error", "%d data messages after the error", S.res.AfterErr), st
		}
		ref := map[uint64]*world.Data{}
		for _, d := range L.res.DataMessages() {
			ref[d.Num] = d
		}
		var prev int64 = -1
		for _, d := range S.res.DataMessages() {
			if d.Num >= c.FailAt {
				return ev.Failf("deterministic/delivered-at-or-after-failure", "block %d delivered although module %s fails at block %d", d.Num, c.FailMod, c.FailAt), st
			}
			if int64(d.Num) <= prev {
				return ev.Failf("deterministic/order", "block %d after %d", d.Num, prev), st
			}
			prev = int64(d.Num)
			w, ok := ref[d.Num]
			if !ok || w.ID != d.ID || string(w.Payload) != string(d.Payload) {
				return ev.Failf("deterministic/prefix-differs", "block %d delivered before the error differs from the sequential execution: %q", d.Num, d.Payload), st
			}
		}
		if S.res.Session != nil && c.FailAt < S.res.Session.LinearHandoffBlock {
			st.insideBackfill = true
		}
		return nil, st
	}

	S, remote := runC16(c, c.Faults, "", 0)
	st.jobs = len(S.res.Jobs)
	if S.res.Hung {
		return ev.Failf("transient/hang", "request %+v with faults %+v did not end: %v", c.Run, c.Faults, firstLine(S.res.Err)), st
	}
	if S.res.Err != nil {
		return ev.Failf("transient/request-failed", "request %+v with transient faults %+v failed: %v", c.Run, c.Faults, firstLine(S.res.Err)), st
	}
	_ = remote
	if f := compareStreams(S.res, L.res, c.Run); f != nil {
		f.Msg = fmt.Sprintf("with faults %+v: %s", c.Faults, f.Msg)
		return f, st
	}
	if f := compareStores(S.last, L.last, c.Prog.StoreKinds()); f != nil {
		return f, st
	}
	for _, f := range c.Faults {
		if f.Kind == "drop-after-done" || (strings.HasPrefix(f.Kind, "drop-mid") && f.After > 0) {
			st.hitAfterWrite = true
		}
	}
	return nil, st
}

func firstLine(err error) string {
	if err == nil {
		return ""
	}
	s := err.Error()
	if i := strings.Index(s, "\n"); i > 0 {
		s = s[:i]
	}
	if len(s) > 500 {
		s = s[:500]
	}
	return s
}

func TestC16(t *testing.T) {
	r := ev.Get("C16", "Faults")
	r.Rule = "rapid, batches of 12 cases run concurrently (every retry sleeps >= 1 s in the real back-off): generated program + request with 2..4 back-filled segments on the real work.RemoteWorker over a fake gRPC client/stream pair in front of the exported Tier2Service.ProcessRange; one case in three (when there are 2..3 workers) the tier2 service admits fewer concurrent calls than there are workers and turns the others down for real; transient plan = 1..3 faults (n-th call; error before the call, error while the stream is set up (no header, then the same error on the first receive), 'service currently overloaded', stream dropped after j messages with the server context cancelled (reported as unavailable, or as canceled by the remote end), stream dropped after the job wrote its files): the request must complete and satisfy the C01 oracle; deterministic plan = a module of the graph panics at block k (one program in four has two stores in every stage, so that the failing module is executed concurrently with another one of its layer; one case in eight: a module reading only a mapper whose outputs an earlier request cached, so that the failing job does not read the chain) (half of the time with 1..2 transient faults on the first calls too): the request must end with an error mapped to invalid_argument, deliver only blocks < k equal to the sequential execution's, nothing after the error, and not retry for ever; non-trivial = a fault that hits after the job produced output, or k inside the back-filled part"
	rapid.Check(t, func(rt *rapid.T) {
		var batch c16Batch
		n := 12
		for i := 0; i < n; i++ {
			batch.Cases = append(batch.Cases, genC16One(rt))
		}
		ev.Get("C16", "FaultsBatch").Begin(batch) // replayed by TestC16BatchReplay
		fails := make([]*ev.Failure, n)
		stats := make([]c16Stats, n)
		var wg sync.WaitGroup
		for i := range batch.Cases {
			wg.Add(1)
			go func(i int) {
				defer wg.Done()
				fails[i], stats[i] = func() (f *ev.Failure, s c16Stats) {
					defer func() {
						if rec := recover(); rec != nil {
							f = ev.Failf("panic", "panic: %v", rec)
						}
					}()
					return checkC16One(batch.Cases[i])
				}()
			}(i)
		}
		wg.Wait()
		for i, c := range batch.Cases {
			cl := []string{fmt.Sprintf("prod=%v", c.Run.Prod)}
			if c.Limit > 0 {
				cl = append(cl, "tier2-with-fewer-slots-than-workers")
			}
			if c.Warm != "" {
				cl = append(cl, "jobs-run-from-cached-upstream-outputs")
			}
			if c.FailMod != "" {
				cl = append(cl, "deterministic")
				if strings.HasPrefix(c.FailMod, "side_") || (strings.HasPrefix(c.FailMod, "store_") && c.Prog.Graph.Index("side_0") >= 0) {
					cl = append(cl, "failing-module-shares-its-layer")
				}
				if len(c.Faults) > 0 {
					cl = append(cl, "deterministic-after-transient-faults")
				}
			} else {
				for _, f := range c.Faults {
					cl = append(cl, "fault="+f.Kind)
				}
			}
			r.Case(c, stats[i].hitAfterWrite || stats[i].insideBackfill, dedupStrings(cl)...)
		}
		for i, f := range fails {
			if f != nil {
				r.Report(rt, batch.Cases[i], f) // the replay file holds the failing case alone
			}
		}
	})
}

// TestC16BatchReplay re-runs a whole batch concurrently (the replay written when the process died during a batch).
func TestC16BatchReplay(t *testing.T) {
	ev.Replay(t, "C16", "FaultsBatch", func(b c16Batch) *ev.Failure {
		fails := make([]*ev.Failure, len(b.Cases))
		var wg sync.WaitGroup
		for i := range b.Cases {
			wg.Add(1)
			go func(i int) {
				defer wg.Done()
				fails[i] = ev.Guard(func() *ev.Failure { f, _ := checkC16One(b.Cases[i]); return f })
			}(i)
		}
		wg.Wait()
		for _, f := range fails {
			if f != nil {
				return f
			}
		}
		return nil
	})
}

func TestC16Replay(t *testing.T) {
	ev.Replay(t, "C16", "Faults", func(c c16Case) *ev.Failure { f, _ := checkC16One(c); return f })
}
