package e2e

// C01 — output is independent of execution strategy: parallel, cached or linear.

import (
	"fmt"
	"os"
	"path/filepath"
	"sort"
	"strings"
	"testing"

	"pgregory.net/rapid"

	"verif/ev"
	"verif/gdsl"
	"verif/pgen"
	"verif/sdsl"
	"verif/world"
)

type c01Case struct {
	Prog pgen.Prog `json:"prog"`
	Seg  uint64    `json:"seg"`
	Head uint64    `json:"head"`
	Runs []runSpec `json:"runs"` // executed in order on one cache directory; every run is judged
}

func genRun(t *rapid.T, p pgen.Prog, seg, head uint64) runSpec {
	maps := p.Maps()
	// prefer outputs that depend on a store
	var storeMaps []string
	for _, m := range maps {
		if p.DependsOnStore(m) {
			storeMaps = append(storeMaps, m)
		}
	}
	out := rapid.SampledFrom(maps).Draw(t, "output")
	if rapid.IntRange(0, 3).Draw(t, "lastmap") == 0 {
		out = maps[len(maps)-1]
	}
	if len(storeMaps) > 0 && rapid.IntRange(0, 3).Draw(t, "storeoutput") > 0 {
		out = rapid.SampledFrom(storeMaps).Draw(t, "outputstore")
	}
	if p.Mod(out).Initial+2 > head {
		// the module starts at or beyond the head of the generated chain (initial blocks pushed up by late inputs): a
		// request for it would ask for blocks that do not exist; take the mapper that starts lowest instead
		for _, m := range maps {
			if p.Mod(m).Initial < p.Mod(out).Initial {
				out = m
			}
		}
	}
	init := p.Mod(out).Initial
	if f := world.FSB(); init < f {
		init = f // a chain whose first streamable block is not 0 (VERIF_FSB): nothing exists below it
	}
	r := runSpec{Output: out, Prod: rapid.IntRange(0, 2).Draw(t, "prod") > 0}
	maxStart := 4 * seg
	if maxStart < init {
		maxStart = init
	}
	r.Start = rapid.Uint64Range(init, maxStart).Draw(t, "start")
	if r.Start+1 > head && init+1 <= head {
		r.Start = head - 1 // never beyond the head of the chain
	}
	if rapid.IntRange(0, 5).Draw(t, "unbounded") == 0 {
		r.Stop = 0
	} else {
		r.Stop = r.Start + rapid.Uint64Range(1, 3*seg).Draw(t, "len")
		if r.Stop > head {
			r.Stop = head
		}
		if r.Stop <= r.Start {
			r.Stop = r.Start + 1
		}
	}
	r.Workers = rapid.IntRange(1, 4).Draw(t, "workers")
	switch rapid.IntRange(0, 3).Draw(t, "finality") {
	case 0:
		r.Final = 0 // unknown
	case 1:
		if r.Start > 1 {
			r.Final = rapid.Uint64Range(1, r.Start-1).Draw(t, "finalbelow")
		}
	case 2:
		hi := r.Stop
		if hi == 0 || hi > head {
			hi = head
		}
		if hi > r.Start {
			r.Final = rapid.Uint64Range(r.Start, hi).Draw(t, "finalinside")
		}
	default:
		r.Final = head - rapid.Uint64Range(0, 3).Draw(t, "finalhigh")
	}
	if r.Prod && r.Stop == 0 && r.Final == 0 {
		r.Final = head - 1 // an unbounded production request cannot be planned without a final block
	}
	if r.Final > 0 && r.Final < head && rapid.IntRange(0, 2).Draw(t, "nonfinaltail") == 0 {
		r.TailLag = rapid.Uint64Range(1, 3).Draw(t, "taillag")
	}
	if rapid.Bool().Draw(t, "steer") {
		n := rapid.IntRange(2, 6).Draw(t, "norder")
		for i := 0; i < n; i++ {
			r.JobOrder = append(r.JobOrder, rapid.IntRange(0, 9).Draw(t, "rank"))
		}
	}
	return r
}

func genC01(t *rapid.T) c01Case {
	c := c01Case{Seg: rapid.Uint64Range(2, 7).Draw(t, "seg")}
	c.Head = 8*c.Seg + 5
	inits := []uint64{0, 0, 0, 1, c.Seg - 1, c.Seg, c.Seg + 1, 2*c.Seg + 2}
	c.Prog = pgen.Gen(t, pgen.Opts{MinMods: 2, MaxMods: 7, InitialBlocks: inits, ForceStoreOutput: rapid.IntRange(0, 9).Draw(t, "forcestore") < 7})
	if rapid.IntRange(0, 4).Draw(t, "chainprog") == 0 {
		c.Prog = pgen.GenChain(t, rapid.IntRange(2, 3).Draw(t, "chaindepth"), inits, 2*c.Seg, 3*c.Seg, 3*c.Seg+1, 4*c.Seg+1) // 2..3 store stages below the mapper
	}
	if len(c.Prog.Maps()) == 0 {
		c.Prog = pgen.Gen(t, pgen.Opts{MinMods: 2, MaxMods: 7, InitialBlocks: inits, ForceStoreOutput: true})
	}
	if rapid.IntRange(0, 11).Draw(t, "fedbycache") == 0 {
		return genC01FedByCache(t, c, inits)
	}
	n := rapid.SampledFrom([]int{1, 1, 2, 2, 3}).Draw(t, "nruns")
	last := genRun(t, c.Prog, c.Seg, c.Head)
	for i := 0; i < n-1; i++ {
		h := genRun(t, c.Prog, c.Seg, c.Head)
		if rapid.IntRange(0, 2).Draw(t, "related") > 0 {
			// an earlier request that leaves cached outputs the last one can use: an upstream mapper (or the same
			// module) as output, production mode, an overlapping range
			cands := []string{last.Output}
			for a := range c.Prog.Graph.Ancestors(last.Output) {
				if c.Prog.Mod(a).Kind == "map" {
					cands = append(cands, a)
				}
			}
			sort.Strings(cands)
			h.Output = rapid.SampledFrom(cands).Draw(t, "histoutput")
			h.Prod = rapid.IntRange(0, 4).Draw(t, "histprod") > 0
			h.Start = last.Start
			if init := c.Prog.Mod(h.Output).Initial; h.Start < init {
				h.Start = init
			}
			if rapid.Bool().Draw(t, "histlower") && h.Start >= c.Seg && h.Start-c.Seg >= c.Prog.Mod(h.Output).Initial {
				h.Start -= c.Seg
			}
			if f := world.FSB(); h.Start < f {
				h.Start = f
			}
			h.Stop = last.Stop
			if h.Stop != 0 && rapid.Bool().Draw(t, "histlonger") {
				h.Stop += rapid.Uint64Range(0, c.Seg).Draw(t, "histextra")
				if h.Stop > c.Head {
					h.Stop = c.Head
				}
			}
			if h.Stop != 0 && h.Stop <= h.Start {
				h.Stop = h.Start + 1
			}
			if h.Prod && h.Stop == 0 && h.Final == 0 {
				h.Final = c.Head - 1
			}
			if h.Final != 0 && h.Final > c.Head {
				h.Final = c.Head
			}
		}
		c.Runs = append(c.Runs, h)
	}
	c.Runs = append(c.Runs, last)
	if rapid.IntRange(0, 7).Draw(t, "writefaults") == 0 {
		// the object store fails some writes of one request transiently (every such write is retried): what that
		// request leaves in the cache serves the later ones
		i := rapid.IntRange(0, len(c.Runs)-1).Draw(t, "faultyrun")
		if i > 0 && rapid.Bool().Draw(t, "faultyfirst") {
			i = 0
		}
		c.Runs[i].Faults = genWriteFaults(t)
	}
	return c
}

// genC01FedByCache: a mapper R reads a sparse mapper M and a store S (in get mode, so nothing of S is an input by
// value); an earlier production request caches M's outputs, then R is requested: the jobs of R's stage find every
// value input in the cache and run without the block source, on the blocks the cached files name.
func genC01FedByCache(t *rapid.T, c c01Case, inits []uint64) c01Case {
	k := sdsl.AllKinds()[rapid.IntRange(0, len(sdsl.AllKinds())-1).Draw(t, "fedkind")]
	im, is := rapid.SampledFrom(inits).Draw(t, "fedinitm"), rapid.SampledFrom(inits).Draw(t, "fedinits")
	ir := max(im, is) + rapid.SampledFrom([]uint64{0, 0, 1}).Draw(t, "fedabove")
	g := gdsl.Graph{Mods: []gdsl.Mod{
		{Name: "map_m", Kind: "map", Initial: im, Inputs: []gdsl.In{{T: "source", Ref: gdsl.BlockType}}},
		{Name: "store_s", Kind: "store", Policy: k.Policy, VType: k.VType, Initial: is, Inputs: []gdsl.In{{T: "source", Ref: rapid.SampledFrom([]string{gdsl.BlockType, gdsl.ClockType}).Draw(t, "fedsrc")}}},
		{Name: "map_r", Kind: "map", Initial: ir, Inputs: []gdsl.In{{T: "map", Ref: "map_m"}, {T: "store", Ref: "store_s", Mode: "get"}}},
	}}
	for i := range g.Mods {
		g.Mods[i].Entry = g.Mods[i].Name
	}
	c.Prog = pgen.GenBehaviours(t, g)
	b := c.Prog.Beh["map_m"]
	b.Sparse = rapid.SampledFrom([]uint64{2, 3}).Draw(t, "fedsparse") // silent on some blocks
	b.SkipEmpty = true                                                // for which nothing is recorded in its files
	c.Prog.Beh["map_m"] = b
	last := genRun(t, c.Prog, c.Seg, c.Head)
	last.Output, last.Prod = "map_r", true
	if last.Start < ir {
		last.Start = ir
	}
	if last.Stop != 0 && last.Stop <= last.Start {
		last.Stop = last.Start + 1
	}
	if last.Final == 0 || last.Final > c.Head {
		last.Final = c.Head - 1
	}
	hist := last
	hist.Output, hist.JobOrder, hist.TailLag, hist.FinalOnly = "map_m", nil, 0, false
	if rapid.Bool().Draw(t, "fedlower") && hist.Start >= c.Seg && hist.Start-c.Seg >= im {
		hist.Start -= c.Seg
	}
	c.Runs = []runSpec{hist, last}
	return c
}

type c01Stats struct {
	jobs, cachedBlocks int
	discarded          string
}

func checkC01(c c01Case) (*ev.Failure, []c01Stats) {
	dir := newDir()
	defer os.RemoveAll(dir)
	kinds := c.Prog.StoreKinds()
	var stats []c01Stats
	refs := map[string]runOut{}
	for i, spec := range c.Runs {
		key := fmt.Sprintf("%s/%d/%d", spec.Output, spec.Start, spec.Stop)
		L, ok := refs[key]
		if !ok {
			var err error
			L, err = reference(c.Prog, spec, c.Head)
			if err != nil {
				stats = append(stats, c01Stats{discarded: "no-reference"})
				ev.Get("C01", "Strategies").Discard("no-pure-linear-reference")
				continue
			}
			refs[key] = L
		}
		S := execute(c.Prog, spec, c.Seg, c.Head, dir, false)
		if S.res.Err != nil {
			return ev.Failf("run-error", "run %d (%+v) failed: %v", i, spec, S.res.Err), stats
		}
		st := c01Stats{jobs: len(S.res.Jobs)}
		if S.res.Session != nil {
			for _, d := range S.res.DataMessages() {
				if d.Num < S.res.Session.LinearHandoffBlock {
					st.cachedBlocks++
				}
			}
		}
		stats = append(stats, st)
		if f := compareStreams(S.res, L.res, spec); f != nil {
			f.Msg = fmt.Sprintf("run %d (%+v, seg %d, %d jobs): %s", i, spec, c.Seg, len(S.res.Jobs), f.Msg)
			return f, stats
		}
		if f := compareStores(S.last, L.last, kinds); f != nil {
			f.Msg = fmt.Sprintf("run %d (%+v, seg %d): %s\njobs (stage, segment, start and end sequence numbers): %+v\nfiles left: %s", i, spec, c.Seg, f.Msg, S.res.Jobs, listFiles(dir))
			return f, stats
		}
	}
	return nil, stats
}

func TestC01(t *testing.T) {
	runC01(t, "Strategies", "")
}

// TestC01FSB is TestC01 on a chain whose first streamable block is $VERIF_FSB (a process-wide setting of bstream,
// hence a test of its own, run in its own process by the driver).
func TestC01FSB(t *testing.T) {
	if world.FSB() == 0 {
		t.Skip("VERIF_FSB not set")
	}
	runC01(t, "StrategiesFSB", fmt.Sprintf("chain whose first streamable block is %d (module initial blocks and start blocks below it are moved up to it, segments and snapshots start there); ", world.FSB()))
}

func TestC01FSBReplay(t *testing.T) {
	if world.FSB() == 0 {
		t.Skip("VERIF_FSB not set")
	}
	ev.Replay(t, "C01", "StrategiesFSB", func(c c01Case) *ev.Failure { f, _ := checkC01(c); return f })
}

func runC01(t *testing.T, name, prefix string) {
	r := ev.Get("C01", name)
	r.Rule = prefix + "rapid: generated program (2..7+ modules: maps incl. sparse/skip-empty, stores of every kind read in get and deltas mode, block indexes with filtered modules, clock-only and params-only modules, initial blocks straddling segment boundaries) x 1..3 requests run in order on one cache directory (mode, output module, start, stop or unbounded, segment size 2..7, 1..4 workers, final block unknown/below/inside/above, steered job completion order; one case in twelve: a mapper fed by a sparse mapper whose outputs an earlier request cached and by a store in get mode; in one case in eight the object store fails the first write of up to two cache files of one request transiently, which the code retries); each run compared with the single sequential execution L (dev mode, empty cache, one huge segment): strictly increasing, every delivered block equal to L's (id, payload), omissions only below the hand-off in production mode with empty payload, final stores typed-equal; non-trivial = the run scheduled >=2 segment jobs or served >=1 block from cached outputs, and the output depends on a store"
	rapid.Check(t, func(rt *rapid.T) {
		c := genC01(rt)
		r.Begin(c)
		f, stats := checkC01(c)
		if n := writeFaultsInjected.Swap(0); n > 0 {
			r.Count("transient-write-failures-injected", int(n))
		}
		nt := false
		var cl []string
		for i, st := range stats {
			if st.discarded != "" {
				continue
			}
			if (st.jobs >= 2 || st.cachedBlocks >= 1) && i < len(c.Runs) && c.Prog.DependsOnStore(c.Runs[i].Output) {
				nt = true
			}
			if i < len(c.Runs) {
				if c.Runs[i].Prod {
					cl = append(cl, "mode=prod")
				} else {
					cl = append(cl, "mode=dev")
				}
			}
			cl = append(cl, fmt.Sprintf("jobs<=%d", bucketInt(st.jobs)))
			if i > 0 {
				cl = append(cl, "warm-cache")
			}
		}
		for _, m := range c.Prog.Graph.Mods {
			if m.Filter != nil {
				cl = append(cl, "has-block-filter")
				break
			}
		}
		r.Case(c, nt, dedupStrings(cl)...)
		r.Report(rt, c, f)
	})
}

func TestC01Replay(t *testing.T) {
	ev.Replay(t, "C01", "Strategies", func(c c01Case) *ev.Failure { f, _ := checkC01(c); return f })
}

func bucketInt(n int) int {
	for _, b := range []int{0, 1, 3, 8, 20} {
		if n <= b {
			return b
		}
	}
	return 1000
}

func dedupStrings(in []string) []string {
	seen := map[string]bool{}
	var out []string
	for _, s := range in {
		if !seen[s] {
			seen[s] = true
			out = append(out, s)
		}
	}
	return out
}

// listFiles names the files of a cache directory (diagnostics of a failure).
func listFiles(dir string) string {
	var out []string
	filepath.Walk(dir, func(p string, info os.FileInfo, err error) error {
		if err == nil && !info.IsDir() {
			out = append(out, strings.TrimPrefix(p, dir))
		}
		return nil
	})
	sort.Strings(out)
	return strings.Join(out, " ")
}
