package e2e

import (
	"bytes"
	"errors"
	"fmt"
	"os"
	"path/filepath"
	"sync/atomic"
	"testing"

	"github.com/streamingfast/substreams/manifest"
	"github.com/streamingfast/substreams/orchestrator/stage"
	"github.com/streamingfast/substreams/storage/store"

	"verif/dslrt"
	"verif/ev"
	"verif/pgen"
	"verif/sdsl"
	"verif/world"

	"pgregory.net/rapid"
)

var (
	scratch string
	dirSeq  atomic.Uint64
)

func TestMain(m *testing.M) {
	dir, err := os.MkdirTemp(os.Getenv("VERIF_SCRATCH"), "e2e-")
	if err != nil {
		panic(err)
	}
	scratch = dir
	code := m.Run()
	ev.Flush()
	os.RemoveAll(dir)
	os.Exit(code)
}

func newDir() string {
	d := filepath.Join(scratch, fmt.Sprintf("d%d", dirSeq.Add(1)))
	if err := os.MkdirAll(d, 0o755); err != nil {
		panic(err)
	}
	return d
}

// runSpec is one request with the configuration of the server that runs it.
type runSpec struct {
	Prod     bool   `json:"prod"`
	Start    uint64 `json:"start"`
	Stop     uint64 `json:"stop"` // 0 = until the end of the chain
	Output   string `json:"output"`
	Workers  int    `json:"workers"`
	Final    uint64 `json:"final"` // recent final block known to tier1, 0 = unknown
	JobOrder []int  `json:"job_order,omitempty"`
	// TailLag > 0: the blocks above Final are not final when they arrive (step new); the irreversible signal of
	// block n comes after block n+TailLag
	TailLag uint64 `json:"tail_lag,omitempty"`
	// FinalOnly: a final_blocks_only request (with TailLag the blocks above Final reach the pipeline as plain
	// "irreversible" signals, as from the live hub)
	FinalOnly bool `json:"final_only,omitempty"`
	// Skipped: block numbers the chain does not have (only on a chain without non-final tail)
	Skipped []uint64 `json:"skipped_block_numbers,omitempty"`
	// Faults: the object store fails the first write of some cache files transiently during this request
	Faults *writeFaultSpec `json:"write_faults,omitempty"`
}

type writeFaultSpec struct {
	Pick   uint64 `json:"pick"`
	Every  int    `json:"every"`
	Before bool   `json:"before_reading_the_body,omitempty"`
}

// writeFaultsInjected counts the injected faults of the process (evidence).
var writeFaultsInjected atomic.Int64

func genWriteFaults(t *rapid.T) *writeFaultSpec {
	return &writeFaultSpec{Pick: rapid.Uint64Range(0, 1<<20).Draw(t, "faultpick"), Every: rapid.SampledFrom([]int{1, 2, 3, 5}).Draw(t, "faultevery"),
		Before: rapid.IntRange(0, 3).Draw(t, "faultbefore") == 0}
}

// snapshot of every store after a block.
type storeSnap struct {
	Block  uint64
	Stores map[string]map[string][]byte
	Sizes  map[string]uint64
}

func snapStores(num uint64, m store.Map) *storeSnap {
	out := &storeSnap{Block: num, Stores: map[string]map[string][]byte{}, Sizes: map[string]uint64{}}
	for name, s := range m {
		out.Stores[name] = sdsl.Snapshot(s)
		out.Sizes[name] = s.SizeBytes()
	}
	return out
}

type runOut struct {
	res  *world.Result
	last *storeSnap // stores after the last block processed by the tier1 pipeline
}

// chainFor is the block source of a run: a fork-free chain up to head, whose blocks above spec.Final arrive
// non-final when spec.TailLag > 0.
func chainFor(spec runSpec, head uint64) []world.Step {
	if spec.TailLag > 0 && spec.Final > 0 {
		return world.LinearChainLag(head, spec.Final, spec.TailLag)
	}
	if len(spec.Skipped) > 0 {
		return world.LinearChainWithout(head, spec.Skipped)
	}
	return world.LinearChain(head)
}

func execute(p pgen.Prog, spec runSpec, seg uint64, head uint64, dir string, forbidJobs bool) runOut {
	var out runOut
	cfg := world.Config{Dir: dir, Seg: seg, Workers: spec.Workers, Final: spec.Final, Steps: chainFor(spec, head), JobOrder: spec.JobOrder}
	cfg.OnBlock = func(st world.Step, m store.Map) {
		if m != nil {
			out.last = snapStores(st.Num, m)
		}
	}
	if forbidJobs {
		cfg.Tier2Hook = func(stage.Unit, int) error { return errNoPureLinear }
	}
	if spec.Faults != nil {
		// at most two per request: every retried write sleeps one second
		cfg.WriteFaults = &world.WriteFaults{Pick: spec.Faults.Pick, Every: spec.Faults.Every, Before: spec.Faults.Before, Max: 2}
		defer func() { writeFaultsInjected.Add(int64(cfg.WriteFaults.Stats())) }()
	}
	out.res = world.Run(p.Modules(), world.Request{Prod: spec.Prod, Start: int64(spec.Start), Stop: spec.Stop, Output: spec.Output, FinalBlocksOnly: spec.FinalOnly}, cfg)
	return out
}

var errNoPureLinear = errors.New("harness: the reference run asked for a segment job (no pure-linear reference)")

// reference is the single sequential execution L of the statement: a development-mode request on
// an empty cache with a segment size larger than the chain, so nothing is back-processed by jobs.
func reference(p pgen.Prog, spec runSpec, head uint64) (runOut, error) {
	dir := newDir()
	defer os.RemoveAll(dir)
	ref := spec
	ref.Prod, ref.Workers, ref.Final, ref.JobOrder, ref.Faults = false, 1, 0, nil, nil
	out := execute(p, ref, 1_000_000, head, dir, true)
	if out.res.Err != nil {
		return out, out.res.Err
	}
	for _, j := range out.res.Jobs {
		if j.Err != "" {
			return out, errNoPureLinear
		}
	}
	return out, nil
}

// compareStreams is the oracle of C01 (i)-(iii): S against the reference L on [start, stop).
func compareStreams(S, L *world.Result, spec runSpec) *ev.Failure {
	ref := map[uint64]*world.Data{}
	var refOrder []uint64
	for _, d := range L.DataMessages() {
		if d.Num < spec.Start || (spec.Stop != 0 && d.Num >= spec.Stop) {
			return ev.Failf("reference/out-of-range", "reference delivered block %d outside [%d,%d)", d.Num, spec.Start, spec.Stop)
		}
		ref[d.Num] = d
		refOrder = append(refOrder, d.Num)
	}
	handoff := uint64(0)
	if S.Session != nil {
		handoff = S.Session.LinearHandoffBlock
	}
	seen := map[uint64]bool{}
	var prev int64 = -1
	for _, d := range S.DataMessages() {
		if int64(d.Num) <= prev {
			if seen[d.Num] {
				return ev.Failf("stream/duplicate", "block %d delivered twice", d.Num)
			}
			return ev.Failf("stream/reordered", "block %d delivered after block %d", d.Num, prev)
		}
		prev = int64(d.Num)
		seen[d.Num] = true
		if d.Num < spec.Start || (spec.Stop != 0 && d.Num >= spec.Stop) {
			return ev.Failf("stream/out-of-range", "block %d delivered outside the requested range [%d,%d)", d.Num, spec.Start, spec.Stop)
		}
		want, ok := ref[d.Num]
		if !ok {
			return ev.Failf("stream/invented", "block %d delivered but the sequential execution delivers no such block", d.Num)
		}
		if d.ID != want.ID {
			return ev.Failf("stream/block-id", "block %d delivered with id %q, sequential execution has %q", d.Num, d.ID, want.ID)
		}
		if !bytes.Equal(d.Payload, want.Payload) {
			where := "linear part"
			if d.Num < handoff {
				where = "back-filled part"
			}
			return ev.Failf("stream/payload-altered/"+where, "block %d (%s, hand-off %d): payload %q, sequential execution gives %q", d.Num, where, handoff, d.Payload, want.Payload)
		}
	}
	for _, n := range refOrder {
		if seen[n] {
			continue
		}
		switch {
		case n >= handoff:
			return ev.Failf("stream/missing/linear-part", "block %d (at or above the hand-off %d) was not delivered", n, handoff)
		case !spec.Prod:
			return ev.Failf("stream/missing/dev-mode", "development mode did not deliver block %d", n)
		case len(ref[n].Payload) != 0:
			return ev.Failf("stream/missing/non-empty-output", "block %d below the hand-off %d was omitted but its output is not empty: %q", n, handoff, ref[n].Payload)
		}
	}
	return nil
}

// compareStores is (iv): stores at the end of the linear phase, typed-equal to the reference at the same block.
func compareStores(S, L *storeSnap, kinds map[string]sdsl.Kind) *ev.Failure {
	if S == nil || L == nil || S.Block != L.Block {
		return nil
	}
	for name, kind := range kinds {
		ls, lok := L.Stores[name]
		ss, sok := S.Stores[name]
		if !lok || !sok {
			continue
		}
		if d := sdsl.DiffStores(kind, ss, ls); d != "" {
			return ev.Failf("stores/content", "store %s (%s) after block %d differs from the sequential execution: %s", name, kind, S.Block, d)
		}
	}
	return nil
}

type dslrtBehaviour = dslrt.Behaviour

// moduleHashes returns the real cache identifier of every module of the program.
func moduleHashes(p pgen.Prog) map[string]string {
	pb := p.Modules()
	out := map[string]string{}
	mg, err := manifest.NewModuleGraph(pb.Modules)
	if err != nil {
		return out
	}
	mh := manifest.NewModuleHashes()
	for _, m := range pb.Modules {
		if h, err := mh.HashModule(pb, m, mg); err == nil {
			out[m.Name] = fmt.Sprintf("%x", []byte(h))
		}
	}
	return out
}

func sdslDiff(k sdsl.Kind, a, b map[string][]byte) string { return sdsl.DiffStores(k, a, b) }
func byteSize(kv map[string][]byte) uint64                { return sdsl.ByteSize(kv) }
