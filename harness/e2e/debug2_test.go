package e2e

import (
	"fmt"
	"os"
	"sort"
	"strings"
	"testing"

	"verif/ev"
	"verif/sdsl"
)

// TestDebugC07Files prints the files of the clean run and of every subset run of a saved C07 case (development aid).
func TestDebugC07Files(t *testing.T) {
	var c c07Case
	ok, err := ev.LoadReplay("C07", "Subsets", &c)
	if !ok || err != nil {
		t.Skip("no replay")
	}
	kinds := c.Prog.StoreKinds()
	hashKind := map[string]sdsl.Kind{}
	hashes := moduleHashes(c.Prog)
	for name, k := range kinds {
		hashKind[hashes[name]] = k
	}
	fmt.Println("hashes:", hashes)
	u, clean := buildUniverse(c)
	fmt.Printf("clean: err=%v session=%+v jobs=%+v\n", clean.res.Err, clean.res.Session, clean.res.Jobs)
	for _, d := range clean.res.DataMessages() {
		fmt.Printf("  clean %d %q\n", d.Num, d.Payload)
	}
	for i, n := range u.names {
		d, _ := decodeFile(n, u.files[n], kinds, hashKind)
		fmt.Println("U", i, n, clip(d))
	}
	for si, sub := range c.Subsets {
		keep := resolveSubset(sub, u.names)
		dir := newDir()
		files := map[string][]byte{}
		for i, rel := range u.names {
			if keep[i] {
				files[rel] = u.files[rel]
			}
		}
		writeTree(dir, files)
		S := execute(c.Prog, c.Run, c.Seg, c.Head, dir, false)
		fmt.Printf("subset %d kept=%d err=%v session=%+v jobs=%+v\n", si, len(files), S.res.Err, S.res.Session, S.res.Jobs)
		tree := readTree(dir)
		var rels []string
		for rel := range tree {
			rels = append(rels, rel)
		}
		sort.Strings(rels)
		for _, rel := range rels {
			if !strings.Contains(rel, ".output") {
				continue
			}
			d, _ := decodeFile(rel, tree[rel], kinds, hashKind)
			_, had := files[rel]
			fmt.Println("   ", rel, "kept-before:", had, clip(d))
		}
		os.RemoveAll(dir)
	}
}
