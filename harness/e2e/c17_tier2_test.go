package e2e

// C17, tier2 side — a segment-job request whose stage, segment number or output module does not fit the graph is
// rejected or accepted by the real Tier2Service.ProcessRange, never a panic or a hang.

import (
	"context"
	"errors"
	"fmt"
	"os"
	"runtime"
	"strings"
	"testing"
	"time"

	"connectrpc.com/connect"
	pbssinternal "github.com/streamingfast/substreams/pb/sf/substreams/intern/v2"
	"github.com/streamingfast/substreams/pipeline/exec"
	"google.golang.org/grpc/codes"
	"google.golang.org/grpc/status"
	"google.golang.org/protobuf/proto"
	"pgregory.net/rapid"

	"verif/ev"
	"verif/pgen"
	"verif/world"
)

type c17t2Case struct {
	Prog    pgen.Prog `json:"prog"`
	Seg     uint64    `json:"seg"`
	Head    uint64    `json:"head"`
	Output  string    `json:"output"`
	Stage   uint32    `json:"stage"`
	Segment uint64    `json:"segment"`
	SegSize uint64    `json:"segment_size"`
	FSB     uint64    `json:"first_streamable_block"`
}

func genC17T2(t *rapid.T) c17t2Case {
	c := c17t2Case{Seg: rapid.Uint64Range(2, 5).Draw(t, "seg")}
	c.Head = 4*c.Seg + 2
	inits := []uint64{0, 0, 1, c.Seg, c.Seg + 1}
	c.Prog = pgen.Gen(t, pgen.Opts{MinMods: 1, MaxMods: 4, InitialBlocks: inits, ForceStoreOutput: true})
	if rapid.IntRange(0, 3).Draw(t, "chain") == 0 {
		c.Prog = pgen.GenChain(t, rapid.IntRange(1, 3).Draw(t, "depth"), inits)
	}
	var names []string
	for _, m := range c.Prog.Graph.Mods {
		names = append(names, m.Name)
	}
	c.Output = rapid.SampledFrom(names).Draw(t, "output") // tier2 takes stores and indexes as output module too
	if rapid.IntRange(0, 2).Draw(t, "mapoutput") > 0 && len(c.Prog.Maps()) > 0 {
		c.Output = rapid.SampledFrom(c.Prog.Maps()).Draw(t, "outputmap")
	}
	c.Stage = rapid.SampledFrom([]uint32{0, 0, 1, 1, 2, 3, 4, 7, 1 << 31, ^uint32(0)}).Draw(t, "stage")
	c.Segment = rapid.SampledFrom([]uint64{0, 0, 0, 1}).Draw(t, "segment")
	if rapid.IntRange(0, 9).Draw(t, "latersegment") == 0 {
		// a later segment (beyond the chain included): the job then usually fails on the snapshots it needs, after
		// the real retries of the store loader (seconds)
		c.Segment = rapid.SampledFrom([]uint64{2, 3, 4, 9}).Draw(t, "segmentlate")
	}
	c.SegSize = c.Seg
	if rapid.IntRange(0, 5).Draw(t, "othersize") == 0 {
		c.SegSize = rapid.SampledFrom([]uint64{1, 2, 3, 7}).Draw(t, "segsize")
	}
	c.FSB = world.FSB()
	return c
}

type c17t2Outcome struct {
	class     string
	stages    int
	wellBuilt bool
}

func checkC17T2(c c17t2Case) (*ev.Failure, c17t2Outcome) {
	var o c17t2Outcome
	mods := c.Prog.Modules()
	if eg, err := exec.NewOutputModuleGraph(c.Output, true, mods, c.FSB); err == nil {
		o.stages = len(eg.StagedUsedModules())
		o.wellBuilt = true
	}
	dir := newDir()
	defer os.RemoveAll(dir)
	cfg := &world.Config{Dir: dir, Seg: c.Seg, Workers: 1, Final: c.Head, Steps: world.LinearChain(c.Head)}
	req := world.Tier2Request(cfg, mods, c.Output, 0, c.Segment)
	req.Stage, req.SegmentSize, req.FirstStreamableBlock = c.Stage, c.SegSize, c.FSB
	ctx, cancel := context.WithCancel(world.BaseContext(context.Background(), cfg))
	defer cancel()
	type res struct {
		err   error
		panic string
		pre   string
	}
	done := make(chan res, 1)
	go func() {
		var r res
		defer func() {
			if rec := recover(); rec != nil {
				buf := make([]byte, 4096)
				buf = buf[:runtime.Stack(buf, false)]
				r.panic = fmt.Sprintf("%v\n%s", rec, buf)
			}
			done <- r
		}()
		// the request comes after two malformed ones on a service that admits one request at a time: requests that are
		// turned down must not use the service up
		noModules := proto.Clone(req).(*pbssinternal.ProcessRangeRequest)
		noModules.Modules = nil
		noOutput := proto.Clone(req).(*pbssinternal.ProcessRangeRequest)
		noOutput.OutputModule = ""
		errs := world.ProcessRangeExportedSeq(ctx, cfg, 1, noModules, noOutput, req)
		for i, e := range errs[:2] {
			var ce *connect.Error
			if !(status.Code(e) == codes.InvalidArgument || (errors.As(e, &ce) && ce.Code() == connect.CodeInvalidArgument)) {
				r.pre = fmt.Sprintf("malformed request %d (no modules / no output module) answered %v instead of invalid_argument", i, e)
			}
		}
		r.err = errs[2]
	}()
	var r res
	select {
	case r = <-done:
	case <-time.After(120 * time.Second):
		cancel()
		return ev.Failf("tier2/hang", "ProcessRange (output %s, stage %d of %d, segment %d, segment size %d) did not return within 120 s", c.Output, c.Stage, o.stages, c.Segment, c.SegSize), o
	}
	if r.panic != "" {
		return ev.Failf("tier2/panic", "ProcessRange (output %s, stage %d of %d, segment %d, segment size %d) panicked: %s", c.Output, c.Stage, o.stages, c.Segment, c.SegSize, r.panic), o
	}
	if r.pre != "" {
		return ev.Failf("tier2/malformed-not-invalid-argument", "%s", r.pre), o
	}
	if r.err != nil && status.Code(r.err) == codes.Unavailable && strings.Contains(r.err.Error(), "overloaded") {
		return ev.Failf("tier2/overloaded-without-load", "the request was sent alone, after two requests that were turned down, to a service that admits one request at a time, and is answered: %v", r.err), o
	}
	switch {
	case r.err == nil:
		o.class = "accepted"
	default:
		o.class = "rejected-" + status.Code(r.err).String()
	}
	if o.wellBuilt && int(c.Stage) >= o.stages {
		o.class = "stage-out-of-range/" + o.class
		// a stage the graph does not have cannot be executed; when the service answers with an error it is the
		// client's mistake, not an internal one
		if r.err != nil && status.Code(r.err) != codes.InvalidArgument {
			return ev.Failf("tier2/stage-out-of-range/wrong-code", "stage %d of a graph with %d stages is rejected with code %v instead of invalid_argument: %v", c.Stage, o.stages, status.Code(r.err), r.err), o
		}
	}
	return nil, o
}

func TestC17Tier2(t *testing.T) {
	r := ev.Get("C17", "Tier2Requests")
	r.Rule = "rapid: a generated program and a segment-job request (ProcessRangeRequest) as tier1 builds it, with the output module any module of the graph (mappers twice as often), the stage number in {0..4, 7, 2^31, 2^32-1}, the segment number 0 or 1 (one time in ten 2..4 or 9, beyond the chain) and, one time in six, another segment size, handed to the exported Tier2Service.ProcessRange of a service that admits one request at a time, after two malformed requests (no modules, no output module) that must be answered invalid_argument and must not use the service up (validation, graph, stores, execution plan, pipeline, error mapping) over the in-process stream; it must return (nil or a status error) without panic within 120 s, and a stage the graph does not have, when rejected, is rejected as invalid_argument; non-trivial = the stage is out of range, or the request was executed (accepted)"
	rapid.Check(t, func(rt *rapid.T) {
		c := genC17T2(rt)
		r.Begin(c)
		f, o := checkC17T2(c)
		nt := o.class == "accepted" || (o.wellBuilt && int(c.Stage) >= o.stages)
		r.Case(c, nt, "outcome="+o.class, fmt.Sprintf("stages=%d", o.stages))
		r.Report(rt, c, f)
	})
}

func TestC17Tier2Replay(t *testing.T) {
	ev.Replay(t, "C17", "Tier2Requests", func(c c17t2Case) *ev.Failure { f, _ := checkC17T2(c); return f })
}
