package e2e

// C07 — results do not depend on which cache files exist (crash and eviction tolerance).

import (
	"bytes"
	"context"
	"fmt"
	"io"
	"os"
	"path/filepath"
	"sort"
	"strings"
	"sync"
	"testing"

	"github.com/RoaringBitmap/roaring/roaring64"
	"github.com/streamingfast/dstore"
	"github.com/streamingfast/substreams/orchestrator/stage"
	pboutput "github.com/streamingfast/substreams/storage/execout/pb"
	pbindexes "github.com/streamingfast/substreams/storage/index/pb"
	"github.com/streamingfast/substreams/storage/store/marshaller"
	"google.golang.org/protobuf/proto"
	"pgregory.net/rapid"

	"verif/ev"
	"verif/gdsl"
	"verif/pgen"
	"verif/sdsl"
	"verif/world"
)

type c07Case struct {
	Prog    pgen.Prog `json:"prog"`
	Seg     uint64    `json:"seg"`
	Head    uint64    `json:"head"`
	Run     runSpec   `json:"run"`
	Subsets [][]int   `json:"subsets"` // each subset lists indexes (mod universe size) of the files kept; nil = enumerate
	Debris  []int     `json:"debris"`  // indexes of files for which a truncated "<file>.xxxxxxxx.tmp" is added
	Exhaust bool      `json:"exhaustive"`
}

// universe is the set of cache files a case draws from: relative path -> content.
type universe struct {
	names []string // in write order of the complete run (partials right after their job)
	files map[string][]byte
}

func readTree(root string) map[string][]byte {
	out := map[string][]byte{}
	filepath.Walk(root, func(p string, info os.FileInfo, err error) error {
		if err != nil || info.IsDir() {
			return nil
		}
		rel, _ := filepath.Rel(root, p)
		if strings.HasSuffix(rel, ".tmp") && !strings.Contains(rel, "a1b2c3d4") {
			return nil // a write in flight (dstore writes under a temporary name, then renames)
		}
		if strings.HasSuffix(rel, "substreams.partial.spkg.zst") {
			return nil // the package copy is not a cache file of the modules
		}
		b, err := os.ReadFile(p)
		if err == nil {
			out[rel] = b
		}
		return nil
	})
	return out
}

func writeTree(root string, files map[string][]byte) {
	for rel, b := range files {
		p := filepath.Join(root, rel)
		os.MkdirAll(filepath.Dir(p), 0o755)
		os.WriteFile(p, b, 0o644)
	}
}

// buildUniverse runs the request on an empty cache, harvesting the partial stores before the squasher deletes them.
func buildUniverse(c c07Case) (*universe, runOut) {
	dir := newDir()
	defer os.RemoveAll(dir)
	u := &universe{files: map[string][]byte{}}
	var mu sync.Mutex
	seen := map[string]bool{}
	harvest := func() {
		mu.Lock()
		defer mu.Unlock()
		tree := readTree(dir)
		var fresh []string
		for rel := range tree {
			if !seen[rel] {
				fresh = append(fresh, rel)
			}
		}
		sort.Strings(fresh)
		for _, rel := range fresh {
			seen[rel] = true
			u.names = append(u.names, rel)
			u.files[rel] = tree[rel]
		}
	}
	var out runOut
	cfg := world.Config{Dir: dir, Seg: c.Seg, Workers: 1, Final: c.Run.Final, Steps: chainFor(c.Run, c.Head)} // the same chain as the subset runs (non-final tail included)
	cfg.AfterJob = func(stage.Unit) { harvest() }
	out.res = world.Run(c.Prog.Modules(), world.Request{Prod: c.Run.Prod, Start: int64(c.Run.Start), Stop: c.Run.Stop, Output: c.Run.Output}, cfg)
	harvest()
	return u, out
}

// decoded content of a cache file, for equivalence.
func decodeFile(rel string, raw []byte, kinds map[string]sdsl.Kind, hashKind map[string]sdsl.Kind) (string, error) {
	dir := filepath.Dir(rel)
	base := strings.TrimSuffix(filepath.Base(rel), ".zst")
	tmp, err := os.MkdirTemp(scratch, "dec-")
	if err != nil {
		return "", err
	}
	defer os.RemoveAll(tmp)
	if err := os.WriteFile(filepath.Join(tmp, filepath.Base(rel)), raw, 0o644); err != nil {
		return "", err
	}
	st, err := dstore.NewStore(tmp, "zst", "zstd", false)
	if err != nil {
		return "", err
	}
	rc, err := st.OpenObject(context.Background(), base)
	if err != nil {
		return "", err
	}
	data, err := io.ReadAll(rc)
	rc.Close()
	if err != nil {
		return "", err
	}
	switch {
	case strings.HasSuffix(base, ".kv") || strings.HasSuffix(base, ".partial"):
		sd, _, err := (&marshaller.VTproto{}).Unmarshal(data)
		if err != nil {
			return "", err
		}
		// typed canonical form
		hash := strings.Split(dir, string(filepath.Separator))
		kind := hashKind[hash[len(hash)-2]]
		var keys []string
		for k := range sd.Kv {
			keys = append(keys, k)
		}
		sort.Strings(keys)
		var sb strings.Builder
		for _, k := range keys {
			v, err := sdsl.ParseStoreValue(kind, sd.Kv[k])
			if err != nil {
				fmt.Fprintf(&sb, "%q=raw:%q;", k, sd.Kv[k])
			} else {
				fmt.Fprintf(&sb, "%q=%s;", k, v)
			}
		}
		dp := append([]string{}, sd.DeletePrefixes...)
		sort.Strings(dp)
		fmt.Fprintf(&sb, "|del=%q", dp)
		return sb.String(), nil
	case strings.HasSuffix(base, ".output"):
		m := &pboutput.Map{}
		if err := m.UnmarshalFast(data); err != nil {
			return "", err
		}
		var items []string
		for _, it := range m.Kv {
			items = append(items, fmt.Sprintf("%d/%s/%x", it.BlockNum, it.BlockId, it.Payload))
		}
		sort.Strings(items)
		return strings.Join(items, ";"), nil
	case strings.HasSuffix(base, ".index"):
		m := &pbindexes.Map{}
		if err := proto.Unmarshal(data, m); err != nil {
			return "", err
		}
		var items []string
		for k, v := range m.Indexes {
			bm := roaring64.New()
			if _, err := bm.FromUnsafeBytes(v); err != nil {
				return "", err
			}
			items = append(items, fmt.Sprintf("%s=%v", k, bm.ToArray()))
		}
		sort.Strings(items)
		return strings.Join(items, ";"), nil
	}
	return fmt.Sprintf("%x", data), nil
}

func genC07(t *rapid.T) c07Case {
	c := c07Case{Seg: rapid.Uint64Range(2, 5).Draw(t, "seg")}
	c.Head = 6*c.Seg + 3
	inits := []uint64{0, 0, 0, 1, c.Seg, c.Seg + 1}
	c.Prog = pgen.Gen(t, pgen.Opts{MinMods: 1, MaxMods: 4, InitialBlocks: inits, ForceStoreOutput: true})
	if rapid.IntRange(0, 3).Draw(t, "chainprog") == 0 {
		c.Prog = pgen.GenChain(t, rapid.IntRange(2, 3).Draw(t, "chaindepth"), inits, 2*c.Seg, 3*c.Seg, 3*c.Seg+1)
	}
	twoPerStage := false
	if rapid.IntRange(0, 3).Draw(t, "twoperstage") == 0 {
		// two stores in every stage: a unit is complete only when both have their snapshot, and the cache can hold the
		// files of one and not of the other
		c.Prog = pgen.GenChainOpts(t, rapid.IntRange(1, 2).Draw(t, "twodepth"), []uint64{0, 0, 1, c.Seg}, pgen.ChainOpts{Siblings: true})
		twoPerStage = true
	}
	if !twoPerStage && rapid.IntRange(0, 5).Draw(t, "clockfed") == 0 {
		// a mapper that runs on every block because it reads the clock, next to inputs that are no values (a store in
		// get mode, its params): when its outputs are missing and the store's are cached, the job must still read the
		// chain, the cached files do not name every block
		k := sdsl.AllKinds()[rapid.IntRange(0, len(sdsl.AllKinds())-1).Draw(t, "clockfedkind")]
		si := rapid.SampledFrom([]uint64{0, 0, 1, c.Seg}).Draw(t, "clockfedinit")
		g := gdsl.Graph{Mods: []gdsl.Mod{
			// the store runs on the blocks on which a sparse mapper has an output: its cached files name those blocks only
			{Name: "map_m", Kind: "map", Initial: si, Inputs: []gdsl.In{{T: "source", Ref: gdsl.BlockType}}},
			{Name: "store_s", Kind: "store", Policy: k.Policy, VType: k.VType, Initial: si, Inputs: []gdsl.In{{T: "map", Ref: "map_m"}}},
			{Name: "map_r", Kind: "map", Initial: si + rapid.SampledFrom([]uint64{0, 0, 1}).Draw(t, "clockfedabove"), Inputs: []gdsl.In{{T: "source", Ref: gdsl.ClockType}, {T: "store", Ref: "store_s", Mode: "get"}}},
		}}
		if rapid.Bool().Draw(t, "clockfedparams") {
			g.Mods[2].Inputs = append([]gdsl.In{{T: "params", Value: "p"}}, g.Mods[2].Inputs...)
		}
		for i := range g.Mods {
			g.Mods[i].Entry = g.Mods[i].Name
		}
		c.Prog = pgen.GenBehaviours(t, g)
		bm := c.Prog.Beh["map_m"]
		bm.Sparse = rapid.SampledFrom([]uint64{2, 3}).Draw(t, "clockfedsparse")
		bm.SkipEmpty = true // nothing is recorded for the blocks on which it is silent
		c.Prog.Beh["map_m"] = bm
	}
	c.Run = genRun(t, c.Prog, c.Seg, c.Head)
	c.Run.Workers = rapid.IntRange(1, 3).Draw(t, "c07workers")
	c.Run.JobOrder = nil
	if c.Run.Stop == 0 || c.Run.Stop > c.Run.Start+3*c.Seg {
		c.Run.Stop = c.Run.Start + rapid.Uint64Range(1, 3*c.Seg).Draw(t, "c07len")
	}
	if rapid.IntRange(0, 3).Draw(t, "c07prod") > 0 {
		c.Run.Prod = true
		if c.Run.Final == 0 || rapid.Bool().Draw(t, "c07allfinal") {
			c.Run.Final = c.Head
		}
	}
	n := rapid.IntRange(3, 8).Draw(t, "nsubsets")
	for i := 0; i < n; i++ {
		var sub []int
		kindMax := 4
		if twoPerStage {
			kindMax = 6 // directory-wise subsets three times as often
		}
		switch k := rapid.IntRange(0, kindMax).Draw(t, "subsetkind"); min(k, 4) {
		case 4: // directory-wise
			sub = []int{-100000 - rapid.IntRange(0, 1<<16-1).Draw(t, "dirmask")}
		case 0: // crash point: a prefix of the write order
			k := rapid.IntRange(1, 40).Draw(t, "prefixlen")
			sub = []int{-k}
		case 1: // all but one (eviction of a single file)
			sub = []int{-1000 - rapid.IntRange(0, 40).Draw(t, "evicted")}
		default:
			m := rapid.IntRange(1, 20).Draw(t, "subsetsize")
			for j := 0; j < m; j++ {
				sub = append(sub, rapid.IntRange(0, 60).Draw(t, "kept"))
			}
		}
		c.Subsets = append(c.Subsets, sub)
	}
	nd := rapid.IntRange(0, 2).Draw(t, "ndebris")
	for i := 0; i < nd; i++ {
		c.Debris = append(c.Debris, rapid.IntRange(0, 60).Draw(t, "debris"))
	}
	c.Exhaust = os.Getenv("VERIF_TIER") == "thorough"
	return c
}

func resolveSubset(sub []int, names []string) map[int]bool {
	n := len(names)
	keep := map[int]bool{}
	if n == 0 {
		return keep
	}
	if len(sub) == 1 && sub[0] <= -100000 {
		// directory-wise: the files of a module's states / outputs / index directory are all kept or all gone (a
		// cache left by requests for other output modules, or evicted per directory); bit j of the mask = j-th directory
		mask := -sub[0] - 100000
		var dirs []string
		seen := map[string]bool{}
		for _, rel := range names {
			d := filepath.Dir(rel)
			if !seen[d] {
				seen[d] = true
				dirs = append(dirs, d)
			}
		}
		sort.Strings(dirs)
		kept := map[string]bool{}
		for j, d := range dirs {
			if mask&(1<<(j%16)) != 0 {
				kept[d] = true
			}
		}
		for i, rel := range names {
			if kept[filepath.Dir(rel)] {
				keep[i] = true
			}
		}
		return keep
	}
	if len(sub) == 1 && sub[0] < 0 && sub[0] > -1000 {
		k := (-sub[0]) % (n + 1)
		for i := 0; i < k; i++ {
			keep[i] = true
		}
		return keep
	}
	if len(sub) == 1 && sub[0] <= -1000 {
		ev := (-sub[0] - 1000) % n
		for i := 0; i < n; i++ {
			if i != ev {
				keep[i] = true
			}
		}
		return keep
	}
	for _, i := range sub {
		keep[i%n] = true
	}
	return keep
}

type c07Stats struct {
	universe    int
	subsetsRun  int
	nontrivial  int
	exhaustive  bool
	withPartial bool
}

func checkC07(c c07Case) (*ev.Failure, c07Stats) {
	var st c07Stats
	kinds := c.Prog.StoreKinds()
	L, err := reference(c.Prog, c.Run, c.Head)
	if err != nil {
		ev.Get("C07", "Subsets").Discard("no-pure-linear-reference")
		return nil, st
	}
	u, clean := buildUniverse(c)
	if clean.res.Err != nil {
		return ev.Failf("clean-run-error", "the request on an empty cache failed: %v", clean.res.Err), st
	}
	if f := compareStreams(clean.res, L.res, c.Run); f != nil {
		f.Msg = "clean run: " + f.Msg
		return f, st
	}
	st.universe = len(u.names)
	// module hash -> store kind, for typed decoding
	hashKind := map[string]sdsl.Kind{}
	hashes := moduleHashes(c.Prog)
	for name, k := range kinds {
		hashKind[hashes[name]] = k
	}
	cleanDecoded := map[string]string{}
	for rel, raw := range u.files {
		d, err := decodeFile(rel, raw, kinds, hashKind)
		if err != nil {
			return ev.Failf("clean-run-undecodable", "file %s written by the clean run cannot be decoded: %v", rel, err), st
		}
		cleanDecoded[rel] = d
		if strings.HasSuffix(rel, ".partial.zst") {
			st.withPartial = true
		}
	}

	var subsets []map[int]bool
	n := len(u.names)
	if c.Exhaust && n <= 9 {
		st.exhaustive = true
		for mask := 0; mask < 1<<n; mask++ {
			keep := map[int]bool{}
			for i := 0; i < n; i++ {
				if mask&(1<<i) != 0 {
					keep[i] = true
				}
			}
			subsets = append(subsets, keep)
		}
	} else {
		for _, sub := range c.Subsets {
			subsets = append(subsets, resolveSubset(sub, u.names))
		}
	}

	for si, keep := range subsets {
		dir := newDir()
		files := map[string][]byte{}
		var kept []string
		for i, rel := range u.names {
			if keep[i] {
				files[rel] = u.files[rel]
				kept = append(kept, rel)
			}
		}
		debris := map[string]bool{}
		if n > 0 {
			for _, di := range c.Debris {
				rel := u.names[di%n]
				raw := u.files[rel]
				name := rel + ".a1b2c3d4.tmp"
				files[name] = raw[:len(raw)/2]
				debris[name] = true
			}
		}
		writeTree(filepath.Join(dir), files)
		S := execute(c.Prog, c.Run, c.Seg, c.Head, dir, false)
		st.subsetsRun++
		desc := fmt.Sprintf("subset %d (kept %d of %d files: %v; debris %v)", si, len(kept), n, shortNames(kept), len(debris))
		if S.res.Err != nil {
			os.RemoveAll(dir)
			return ev.Failf("subset-run-error", "%s: the request failed: %v", desc, S.res.Err), st
		}
		if f := compareStreams(S.res, L.res, c.Run); f != nil {
			os.RemoveAll(dir)
			f.Msg = desc + ": " + f.Msg
			return f, st
		}
		if f := compareStores(S.last, L.last, kinds); f != nil {
			os.RemoveAll(dir)
			f.Msg = desc + ": " + f.Msg
			return f, st
		}
		after := readTree(dir)
		os.RemoveAll(dir)
		for rel, raw := range after {
			if debris[rel] || strings.HasSuffix(rel, ".tmp") {
				continue
			}
			want, ok := cleanDecoded[rel]
			if !ok {
				continue // a file the clean run does not leave (allowed)
			}
			got, err := decodeFile(rel, raw, kinds, hashKind)
			if err != nil {
				return ev.Failf("files/undecodable", "%s: file %s left behind cannot be decoded: %v", desc, rel, err), st
			}
			if got != want {
				return ev.Failf("files/not-equivalent", "%s: file %s differs from the clean run's:\n got  %s\n want %s", desc, rel, clip(got), clip(want)), st
			}
		}
		// non-trivial: neither empty nor everything, and a kept file has a removed sibling (same module and range, other kind... or same module other range)
		if len(kept) > 0 && len(kept) < n {
			st.nontrivial++
		}
	}
	return nil, st
}

func clip(s string) string {
	if len(s) > 600 {
		return s[:600] + "..."
	}
	return s
}

func shortNames(in []string) []string {
	var out []string
	for _, s := range in {
		parts := strings.Split(s, string(filepath.Separator))
		if len(parts) >= 3 {
			out = append(out, parts[len(parts)-3][:4]+"/"+parts[len(parts)-2][:1]+"/"+strings.TrimSuffix(parts[len(parts)-1], ".zst"))
		} else {
			out = append(out, s)
		}
	}
	return out
}

var _ = bytes.Equal

func TestC07(t *testing.T) {
	r := ev.Get("C07", "Subsets")
	r.Rule = "rapid: generated program (one in six: a mapper reading the clock and a store in get mode fed by a sparse mapper, whose cached files name only some blocks) + request with <= ~4 segments; file universe = files left by a complete run on an empty cache plus the partial stores harvested after each segment job (before the squasher deletes them) plus truncated debris under dstore's temporary name; each case tries 3..8 subsets (crash points = prefixes of the write order, single evictions, random subsets; thorough: every subset when the universe has <= 9 files); oracle: the request completes, its stream and final stores satisfy the C01 oracle against the sequential execution, every file left behind that the clean run also leaves decodes to equivalent content (stores typed, outputs, index bitmaps); non-trivial = subset neither empty nor the whole universe; counters report subsets run"
	rapid.Check(t, func(rt *rapid.T) {
		c := genC07(rt)
		r.Begin(c)
		f, st := checkC07(c)
		cl := []string{fmt.Sprintf("universe<=%d", bucketInt(st.universe)), fmt.Sprintf("prod=%v", c.Run.Prod)}
		if st.withPartial {
			cl = append(cl, "has-partials")
		}
		if st.exhaustive {
			cl = append(cl, "exhaustive-subsets")
		}
		r.Count("subsets-run", st.subsetsRun)
		r.Count("nontrivial-subsets", st.nontrivial)
		r.Case(c, st.nontrivial > 0, cl...)
		r.Report(rt, c, f)
	})
}

func TestC07Replay(t *testing.T) {
	ev.Replay(t, "C07", "Subsets", func(c c07Case) *ev.Failure { f, _ := checkC07(c); return f })
}
