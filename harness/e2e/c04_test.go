package e2e

// C04 — each requested block is delivered once, in order; streams resume from cursors.

import (
	"bytes"
	"fmt"
	"os"
	"testing"

	"github.com/streamingfast/bstream"
	pbsubstreamsrpc "github.com/streamingfast/substreams/pb/sf/substreams/rpc/v2"
	"pgregory.net/rapid"

	"verif/ev"
	"verif/gdsl"
	"verif/pgen"
	"verif/world"
)

type c04Case struct {
	Prog        pgen.Prog `json:"prog"`
	Seg         uint64    `json:"seg"`
	Head        uint64    `json:"head"`
	Run         runSpec   `json:"run"`
	Resume      []int     `json:"resume"`       // indexes (mod #messages) of the delivered messages to resume from; empty = all
	ResumeFresh bool      `json:"resume_fresh"` // resume on an empty cache instead of the cache left by the original request
	FailAt      uint64    `json:"fail_at"`      // when non-zero the output module fails at this block (nothing may follow the error)
}

func genC04(t *rapid.T, all bool) c04Case {
	c := c04Case{Seg: rapid.Uint64Range(2, 6).Draw(t, "seg")}
	c.Head = 7*c.Seg + 3
	inits := []uint64{0, 0, 1, c.Seg - 1, c.Seg, c.Seg + 1, 2*c.Seg + 2}
	c.Prog = pgen.Gen(t, pgen.Opts{MinMods: 1, MaxMods: 4, InitialBlocks: inits, ForceStoreOutput: true})
	c.Run = genRun(t, c.Prog, c.Seg, c.Head)
	if c.Run.TailLag > 0 && rapid.Bool().Draw(t, "finalonly") {
		c.Run.FinalOnly = true
	}
	// bias towards what the statement is about: production requests whose range is back-filled entirely or
	// crosses the hand-off, stops off the segment boundaries, outputs that are empty on some blocks
	if rapid.IntRange(0, 3).Draw(t, "bias") > 0 {
		r := &c.Run
		r.Prod = rapid.IntRange(0, 4).Draw(t, "biasprod") > 0
		if r.Stop == 0 || r.Stop <= r.Start+1 {
			r.Stop = r.Start + 2 + rapid.Uint64Range(0, 2*c.Seg).Draw(t, "biaslen")
		}
		if r.Stop > c.Head {
			r.Stop = c.Head
		}
		if r.Stop%c.Seg == 0 && r.Stop > r.Start+1 {
			r.Stop--
		}
		switch rapid.IntRange(0, 3).Draw(t, "biasfinal") {
		case 0:
			r.Final = c.Head // everything final: the whole range is back-filled
		case 1, 2:
			// hand-off strictly inside the range: a boundary b with start < b < stop, final block in [b, stop)
			b := (r.Start/c.Seg + 1 + rapid.Uint64Range(0, 1).Draw(t, "biasboundary")) * c.Seg
			if b+1 >= c.Head {
				b = (r.Start/c.Seg + 1) * c.Seg
			}
			r.Stop = b + 1 + rapid.Uint64Range(0, c.Seg+1).Draw(t, "biasafter")
			if r.Stop > c.Head {
				r.Stop = c.Head
			}
			r.Final = b + rapid.Uint64Range(0, c.Seg-1).Draw(t, "biasfinaloff")
			if r.Final >= r.Stop {
				r.Final = r.Stop - 1
			}
			r.Prod = true
		default:
			r.Final = 0
		}
		b := c.Prog.Beh[r.Output]
		if b.Sparse == 0 && rapid.Bool().Draw(t, "makesparse") {
			b.Sparse = rapid.SampledFrom([]uint64{2, 3}).Draw(t, "biassparse")
			c.Prog.Beh[r.Output] = b
		}
	}
	// never an empty range (the clamps above can make the stop block meet the start block at the head of the chain):
	// that request is rightly refused ("start block and stop block are the same")
	if c.Run.Stop != 0 && c.Run.Stop <= c.Run.Start {
		c.Run.Stop = c.Run.Start + 1
	}
	c.ResumeFresh = rapid.IntRange(0, 3).Draw(t, "fresh") == 0
	if !all {
		n := rapid.IntRange(2, 5).Draw(t, "nresume")
		for i := 0; i < n; i++ {
			c.Resume = append(c.Resume, rapid.IntRange(0, 1000).Draw(t, "resumeat"))
		}
	}
	if c.Run.Start+1 > c.Head {
		c.Run.Start = c.Head - 1 // the bias above may push the range beyond the head of the chain
		if c.Run.Stop != 0 && c.Run.Stop <= c.Run.Start {
			c.Run.Stop = c.Run.Start + 1
		}
	}
	if c.Run.TailLag == 0 && rapid.IntRange(0, 3).Draw(t, "skipped") == 0 {
		// a chain that skips block numbers, at the places that matter: the start block, the segment boundaries (where
		// the hand-off lies), the blocks next to them
		n := rapid.IntRange(1, 3).Draw(t, "nskipped")
		for i := 0; i < n; i++ {
			var h uint64
			switch rapid.IntRange(0, 3).Draw(t, "skipwhere") {
			case 0:
				h = c.Run.Start
			case 1:
				h = c.Seg * rapid.Uint64Range(1, 7).Draw(t, "skipboundary")
			case 2:
				h = c.Run.Start + rapid.Uint64Range(0, 2*c.Seg).Draw(t, "skipnear")
			default:
				h = rapid.Uint64Range(1, c.Head-1).Draw(t, "skipany")
			}
			// the block tier1 is told is final exists, and so does the head
			if h == 0 || h >= c.Head || h == c.Run.Final || h <= world.FSB() {
				continue
			}
			c.Run.Skipped = append(c.Run.Skipped, h)
		}
	}
	// (no injected failure for final_blocks_only requests: the failing block may never become final)
	if !c.Run.FinalOnly && rapid.IntRange(0, 5).Draw(t, "fail") == 0 && alwaysRuns(c.Prog, c.Run.Output) {
		hi := c.Run.Stop
		if hi == 0 {
			hi = c.Head
		}
		if hi > c.Run.Start+1 {
			c.FailAt = rapid.Uint64Range(c.Run.Start+1, hi-1).Draw(t, "failat")
			for _, h := range c.Run.Skipped {
				if h == c.FailAt {
					c.FailAt = 0 // the failing block must exist
				}
			}
		}
	}
	return c
}

// alwaysRuns: the module runs on every block from its initial block: no filter, and it reads the block, or the
// clock is its only value input (the engine skips a module whose other value inputs are all absent on a block).
func alwaysRuns(p pgen.Prog, name string) bool {
	m := p.Mod(name)
	if m.Filter != nil {
		return false
	}
	clock, others := false, 0
	for _, in := range m.Inputs {
		switch {
		case in.T == "source" && in.Ref == gdsl.BlockType:
			return true
		case in.T == "source":
			clock = true
		case in.T == "map", in.T == "store" && in.Mode == "deltas":
			others++
		}
	}
	return clock && others == 0
}

type c04Stats struct {
	crossesHandoff bool
	resumed        int
	middleResume   bool
}

func sameMessage(a, b *world.Data) string {
	switch {
	case a.Num != b.Num || a.ID != b.ID:
		return fmt.Sprintf("block %d/%s vs %d/%s", a.Num, a.ID, b.Num, b.ID)
	case !bytes.Equal(a.Payload, b.Payload):
		return fmt.Sprintf("block %d payload %q vs %q", a.Num, a.Payload, b.Payload)
	case a.Cursor != b.Cursor:
		return fmt.Sprintf("block %d cursor %q vs %q", a.Num, a.Cursor, b.Cursor)
	}
	return ""
}

func checkC04(c c04Case) (*ev.Failure, c04Stats) {
	var st c04Stats
	dir := newDir()
	defer os.RemoveAll(dir)
	spec := c.Run
	prog := c.Prog
	if c.FailAt != 0 {
		b := prog.Beh[spec.Output]
		b.FailAt = int64(c.FailAt)
		nb := map[string]dslrtBehaviour{}
		for k, v := range prog.Beh {
			nb[k] = v
		}
		nb[spec.Output] = b
		prog.Beh = nb
		S := execute(prog, spec, c.Seg, c.Head, dir, false)
		if S.res.Err == nil {
			return ev.Failf("error/not-reported", "the output module fails at block %d but the request ended without error", c.FailAt), st
		}
		if S.res.AfterErr != 0 {
			return ev.Failf("error/data-after-error", "%d data messages were delivered after the request returned its error", S.res.AfterErr), st
		}
		for _, d := range S.res.DataMessages() {
			if d.Num >= c.FailAt {
				return ev.Failf("error/delivered-failing-block", "block %d delivered although the output module fails at block %d", d.Num, c.FailAt), st
			}
		}
		return nil, st
	}

	S := execute(prog, spec, c.Seg, c.Head, dir, false)
	if S.res.Err != nil {
		return ev.Failf("run-error", "request %+v failed: %v", spec, S.res.Err), st
	}
	// the first message is the session
	if len(S.res.Responses) == 0 {
		return ev.Failf("session/missing", "no response at all"), st
	}
	if _, ok := S.res.Responses[0].Message.(*pbsubstreamsrpc.Response_Session); !ok {
		return ev.Failf("session/not-first", "first message is %T, not the session", S.res.Responses[0].Message), st
	}
	sess := S.res.Session
	H := sess.LinearHandoffBlock
	if sess.ResolvedStartBlock != spec.Start {
		return ev.Failf("session/start", "session says start %d, requested %d", sess.ResolvedStartBlock, spec.Start), st
	}
	end := spec.Stop
	if end == 0 {
		end = c.Head + 1
	}
	if spec.FinalOnly {
		// only the blocks that become final during the run are delivered
		lastFinal := uint64(0)
		for _, stp := range chainFor(spec, c.Head) {
			if (stp.Step == bstream.StepNewIrreversible || stp.Step == bstream.StepIrreversible) && stp.Num > lastFinal {
				lastFinal = stp.Num
			}
		}
		if lastFinal+1 < end {
			end = lastFinal + 1
		}
	}
	msgs := S.res.DataMessages()
	delivered := map[uint64]*world.Data{}
	var prev int64 = -1
	below, above := 0, 0
	for _, d := range msgs {
		if d.Num < spec.Start || d.Num >= end {
			return ev.Failf("range/outside", "block %d delivered outside [%d,%d)", d.Num, spec.Start, end), st
		}
		if int64(d.Num) <= prev {
			if delivered[d.Num] != nil {
				return ev.Failf("order/duplicate", "block %d delivered twice (hand-off %d)", d.Num, H), st
			}
			return ev.Failf("order/not-increasing", "block %d delivered after %d", d.Num, prev), st
		}
		prev = int64(d.Num)
		delivered[d.Num] = d
		cur, err := bstream.CursorFromOpaque(d.Cursor)
		if err != nil {
			return ev.Failf("cursor/undecodable", "block %d: cursor %q: %v", d.Num, d.Cursor, err), st
		}
		if cur.Block.Num() != d.Num || cur.Block.ID() != d.ID {
			return ev.Failf("cursor/other-block", "block %d/%s carries a cursor for block %d/%s", d.Num, d.ID, cur.Block.Num(), cur.Block.ID()), st
		}
		if d.Num < H {
			below++
		} else {
			above++
		}
	}
	st.crossesHandoff = below > 0 && above > 0
	// completeness: every block (that the chain has) from the hand-off on, and every block in development mode
	exists := map[uint64]bool{}
	for _, stp := range chainFor(spec, c.Head) {
		exists[stp.Num] = true
	}
	for b := spec.Start; b < end; b++ {
		if delivered[b] != nil {
			continue
		}
		if !exists[b] {
			continue
		}
		if b >= H {
			return ev.Failf("gap/linear-part", "block %d (>= hand-off %d) not delivered", b, H), st
		}
		if !spec.Prod {
			return ev.Failf("gap/dev-mode", "development mode did not deliver block %d", b), st
		}
	}

	// resumption
	positions := map[int]bool{}
	if len(c.Resume) == 0 {
		for i := range msgs {
			positions[i] = true
		}
	} else if len(msgs) > 0 {
		for _, r := range c.Resume {
			positions[r%len(msgs)] = true
		}
		// always try around the hand-off
		for i, d := range msgs {
			if d.Num+1 == H || d.Num == H {
				positions[i] = true
			}
		}
	}
	for i := range msgs {
		if !positions[i] {
			continue
		}
		if spec.Stop != 0 && msgs[i].Num+1 >= spec.Stop {
			continue // nothing follows: resuming would ask for an empty range
		}
		if cur, err := bstream.CursorFromOpaque(msgs[i].Cursor); err != nil || !cur.IsOnFinalBlock() {
			continue // the property speaks of the cursor of a delivered final block
		}
		rdir := dir
		if c.ResumeFresh {
			rdir = newDir()
		}
		cfg := world.Config{Dir: rdir, Seg: c.Seg, Workers: spec.Workers, Final: spec.Final, Steps: chainFor(spec, c.Head), JobOrder: spec.JobOrder}
		R := world.Run(prog.Modules(), world.Request{Prod: spec.Prod, Start: int64(spec.Start), Stop: spec.Stop, Output: spec.Output, Cursor: msgs[i].Cursor, FinalBlocksOnly: spec.FinalOnly}, cfg)
		if c.ResumeFresh {
			os.RemoveAll(rdir)
		}
		if R.Err != nil {
			return ev.Failf("resume/error", "resuming after message %d (block %d) failed: %v", i, msgs[i].Num, R.Err), st
		}
		st.resumed++
		if i > 0 && i < len(msgs)-1 {
			st.middleResume = true
		}
		got := R.DataMessages()
		want := msgs[i+1:]
		if len(got) != len(want) {
			return ev.Failf("resume/length", "resuming after block %d (hand-off %d, resumed hand-off %d): %d messages, the original stream had %d after it: got %v want %v", msgs[i].Num, H, R.Session.GetLinearHandoffBlock(), len(got), len(want), nums(got), nums(want)), st
		}
		for k := range got {
			if d := sameMessage(got[k], want[k]); d != "" {
				return ev.Failf("resume/message", "resuming after block %d: message %d differs from the original stream: %s", msgs[i].Num, k, d), st
			}
		}
	}
	return nil, st
}

func nums(ds []*world.Data) (out []uint64) {
	for _, d := range ds {
		out = append(out, d.Num)
	}
	return
}

func runC04(t *testing.T, test string, all bool) {
	r := ev.Get("C04", test)
	rapid.Check(t, func(rt *rapid.T) {
		c := genC04(rt, all)
		r.Begin(c)
		f, st := checkC04(c)
		cl := []string{fmt.Sprintf("prod=%v", c.Run.Prod)}
		if c.FailAt != 0 {
			cl = append(cl, "deterministic-failure")
		}
		if st.crossesHandoff {
			cl = append(cl, "crosses-handoff")
		}
		if c.ResumeFresh {
			cl = append(cl, "resume-on-empty-cache")
		}
		if c.Run.FinalOnly {
			cl = append(cl, "final-blocks-only")
		}
		r.Count("resumed-requests", st.resumed)
		r.Case(c, st.crossesHandoff && st.middleResume, cl...)
		r.Report(rt, c, f)
	})
}

func TestC04(t *testing.T) {
	ev.Get("C04", "Delivery").Rule = "rapid: small programs (a store feeding an output map that is empty on some blocks), both modes, starts on/off boundaries, stops before/at/after the hand-off or unbounded, linear part emitted as final blocks; one case in four on a chain that skips 1..3 block numbers (at the start block, at segment boundaries, next to them); monitor over the response sequence (session first, range, strictly increasing, no duplicate, no gap from the hand-off on nor in dev mode, cursor decodes to the message's block); resumption from the cursor of 2..5 sampled delivered messages plus the ones around the hand-off (same cache or empty cache) must yield exactly the messages that followed; 1 case in 6 makes the output module fail at a block: error reported, nothing delivered after it; non-trivial = the range crosses the hand-off with deliveries on both sides and a resume position that is neither first nor last"
	runC04(t, "Delivery", false)
}

func TestC04AllPositions(t *testing.T) {
	ev.Get("C04", "AllPositions").Rule = "as Delivery, but resuming from the cursor of every delivered message"
	runC04(t, "AllPositions", true)
}

func TestC04Replay(t *testing.T) {
	ev.Replay(t, "C04", "Delivery", func(c c04Case) *ev.Failure { f, _ := checkC04(c); return f })
}
func TestC04AllPositionsReplay(t *testing.T) {
	ev.Replay(t, "C04", "AllPositions", func(c c04Case) *ev.Failure { f, _ := checkC04(c); return f })
}
