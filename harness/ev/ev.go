// Package ev collects evidence counters for a property check and handles
// failure reporting (replay files, known-finding signatures).
package ev

import (
	"encoding/json"
	"fmt"
	"hash/fnv"
	"os"
	"path/filepath"
	"runtime"
	"sort"
	"strconv"
	"strings"
	"sync"
	"testing"

	"pgregory.net/rapid"
)

const maxSamples = 4

// Recorder accumulates what one test of one property explored in this process.
type Recorder struct {
	mu          sync.Mutex
	Property    string
	Test        string
	Rule        string
	Exhaustive  bool
	evaluations int
	classes     map[string]int
	nontrivial  map[uint64]struct{}
	samples     []json.RawMessage
	knownHits   map[string]int
	extra       map[string]int
	discarded   int
}

var (
	regMu sync.Mutex
	reg   = map[string]*Recorder{}
)

// Get returns the recorder for (property, test).
func Get(property, test string) *Recorder {
	regMu.Lock()
	defer regMu.Unlock()
	k := property + "/" + test
	r, ok := reg[k]
	if !ok {
		r = &Recorder{Property: property, Test: test, classes: map[string]int{}, nontrivial: map[uint64]struct{}{}, knownHits: map[string]int{}, extra: map[string]int{}}
		reg[k] = r
	}
	return r
}

func hashBytes(b []byte) uint64 {
	h := fnv.New64a()
	h.Write(b)
	return h.Sum64()
}

// Begin notes the case about to be evaluated in $VERIF_REPLAY_DIR/inflight-<property>-<test>-s<shard>.json. A
// panic on a goroutine started by the code under test cannot be recovered and kills the process: the driver then
// finds the case that was running there and reports it (a replay file like any other). Only used by the
// end-to-end checks, whose cases take milliseconds.
func (r *Recorder) Begin(c any) {
	dir := os.Getenv("VERIF_REPLAY_DIR")
	if dir == "" {
		return
	}
	shard := os.Getenv("VERIF_SHARD")
	if shard == "" {
		shard = "0"
	}
	js, _ := json.Marshal(c)
	out, _ := json.Marshal(replayFile{Property: r.Property, Test: r.Test, Signature: "crash/process-died", Message: "the test process died (panic on a goroutine of the code under test) while this case was being evaluated", Case: js})
	_ = os.WriteFile(filepath.Join(dir, fmt.Sprintf("inflight-%s-%s-s%s.json", r.Property, r.Test, shard)), out, 0o644)
}

// Case records one evaluated case. c is serialised for hashing/sampling.
func (r *Recorder) Case(c any, nontrivial bool, classes ...string) {
	var js []byte
	if nontrivial {
		js, _ = json.Marshal(c)
	}
	r.mu.Lock()
	defer r.mu.Unlock()
	r.evaluations++
	for _, cl := range classes {
		r.classes[cl]++
	}
	if nontrivial {
		h := hashBytes(js)
		if _, seen := r.nontrivial[h]; !seen {
			r.nontrivial[h] = struct{}{}
			if len(r.samples) < maxSamples && len(js) < 6000 {
				r.samples = append(r.samples, json.RawMessage(js))
			}
		}
	}
}

// CaseKey is Case for enumerations where serialising every case would be too
// slow: key is a cheap distinct identifier of the case, sample is called only
// when a sample is wanted.
func (r *Recorder) CaseKey(key uint64, nontrivial bool, sample func() any, classes ...string) {
	r.mu.Lock()
	defer r.mu.Unlock()
	r.evaluations++
	for _, cl := range classes {
		r.classes[cl]++
	}
	if nontrivial {
		if _, seen := r.nontrivial[key]; !seen {
			r.nontrivial[key] = struct{}{}
			if len(r.samples) < maxSamples {
				js, _ := json.Marshal(sample())
				r.samples = append(r.samples, json.RawMessage(js))
			}
		}
	}
}

// Count adds n to a free-form counter reported under coverage.counters.
func (r *Recorder) Count(name string, n int) {
	r.mu.Lock()
	r.extra[name] += n
	r.mu.Unlock()
}

// Discard counts a generated case that could not be judged (never a violation).
func (r *Recorder) Discard(reason string) {
	r.mu.Lock()
	r.discarded++
	r.classes["discarded:"+reason]++
	r.mu.Unlock()
}

type shardOut struct {
	Property    string            `json:"property"`
	Test        string            `json:"test"`
	Rule        string            `json:"rule"`
	Exhaustive  bool              `json:"exhaustive"`
	Evaluations int               `json:"evaluations"`
	Nontrivial  []uint64          `json:"nontrivial_hashes"`
	Classes     map[string]int    `json:"classes"`
	Samples     []json.RawMessage `json:"samples"`
	KnownHits   map[string]int    `json:"known_hits"`
	Counters    map[string]int    `json:"counters"`
	Discarded   int               `json:"discarded"`
}

// Flush writes every recorder to $VERIF_EV_DIR/<property>.<test>.<shard>.json.
func Flush() {
	dir := os.Getenv("VERIF_EV_DIR")
	if dir == "" {
		return
	}
	shard := os.Getenv("VERIF_SHARD")
	if shard == "" {
		shard = "0"
	}
	regMu.Lock()
	defer regMu.Unlock()
	for _, r := range reg {
		r.mu.Lock()
		if r.evaluations == 0 && r.Rule == "" {
			r.mu.Unlock()
			continue // a recorder only used to name in-flight cases
		}
		hs := make([]uint64, 0, len(r.nontrivial))
		for h := range r.nontrivial {
			hs = append(hs, h)
		}
		sort.Slice(hs, func(i, j int) bool { return hs[i] < hs[j] })
		out := shardOut{Property: r.Property, Test: r.Test, Rule: r.Rule, Exhaustive: r.Exhaustive, Evaluations: r.evaluations,
			Nontrivial: hs, Classes: r.classes, Samples: r.samples, KnownHits: r.knownHits, Counters: r.extra, Discarded: r.discarded}
		r.mu.Unlock()
		js, _ := json.Marshal(out)
		_ = os.WriteFile(filepath.Join(dir, fmt.Sprintf("%s.%s.%s.json", r.Property, r.Test, shard)), js, 0o644)
	}
}

// Main is the TestMain body of every harness package.
func Main(m *testing.M) {
	code := m.Run()
	Flush()
	os.Exit(code)
}

// Failure describes a violated oracle.
type Failure struct {
	Sig string // stable signature of the root cause, matched against known_findings.json
	Msg string
}

func Failf(sig, format string, args ...any) *Failure {
	// a signature is one token (the driver parses "sig=<token> replay=<path>")
	sig = strings.Join(strings.Fields(sig), "-")
	return &Failure{Sig: sig, Msg: fmt.Sprintf(format, args...)}
}

type knownFile struct {
	Findings []struct {
		Property  string `json:"property"`
		Signature string `json:"signature"`
		What      string `json:"what"`
	} `json:"findings"`
}

var (
	knownOnce sync.Once
	known     map[string]bool
)

func isKnown(property, sig string) bool {
	knownOnce.Do(func() {
		known = map[string]bool{}
		p := os.Getenv("VERIF_KNOWN")
		if p == "" {
			return
		}
		b, err := os.ReadFile(p)
		if err != nil {
			return
		}
		var kf knownFile
		if json.Unmarshal(b, &kf) != nil {
			return
		}
		for _, f := range kf.Findings {
			known[f.Property+"|"+f.Signature] = true
		}
	})
	return known[property+"|"+sig]
}

type replayFile struct {
	Property  string          `json:"property"`
	Test      string          `json:"test"`
	Signature string          `json:"signature"`
	Message   string          `json:"message"`
	Case      json.RawMessage `json:"case"`
}

// Report handles a failure of case c: known signatures are counted and the
// function returns (the caller stops judging this case); unknown ones write a
// replay file and fail the test.
func (r *Recorder) Report(t interface {
	Fatalf(string, ...any)
	Helper()
}, c any, f *Failure) {
	t.Helper()
	if f == nil {
		return
	}
	if isKnown(r.Property, f.Sig) {
		r.mu.Lock()
		r.knownHits[f.Sig]++
		r.mu.Unlock()
		return
	}
	path := WriteReplay(r.Property, r.Test, c, f)
	t.Fatalf("VERIF-FAIL property=%s sig=%s replay=%s\n%s", r.Property, f.Sig, path, f.Msg)
}

// WriteReplay stores the failing case; the last file written by a shrinking
// run is the shrunk case.
func WriteReplay(property, test string, c any, f *Failure) string {
	dir := os.Getenv("VERIF_REPLAY_DIR")
	if dir == "" {
		dir = os.TempDir()
	}
	shard := os.Getenv("VERIF_SHARD")
	if shard == "" {
		shard = "0"
	}
	js, _ := json.Marshal(c)
	out, _ := json.MarshalIndent(replayFile{Property: property, Test: test, Signature: f.Sig, Message: f.Msg, Case: js}, "", " ")
	path := filepath.Join(dir, fmt.Sprintf("%s-%s-s%s.json", property, test, shard))
	_ = os.WriteFile(path, out, 0o644)
	return path
}

// LoadReplay reads the case of $VERIF_REPLAY into c; ok=false when the variable is
// unset or the file belongs to another test.
func LoadReplay(property, test string, c any) (ok bool, err error) {
	p := os.Getenv("VERIF_REPLAY")
	if p == "" {
		return false, nil
	}
	b, err := os.ReadFile(p)
	if err != nil {
		return false, err
	}
	var rf replayFile
	if err := json.Unmarshal(b, &rf); err != nil {
		return false, err
	}
	if rf.Property != property || (rf.Test != "" && rf.Test != test) {
		return false, nil
	}
	return true, json.Unmarshal(rf.Case, c)
}

// Shard returns (index, count) of this process among the driver's shards.
func Shard() (int, int) {
	i, _ := strconv.Atoi(os.Getenv("VERIF_SHARD"))
	n, _ := strconv.Atoi(os.Getenv("VERIF_NSHARDS"))
	if n <= 0 {
		n = 1
	}
	return i, n
}

// Scale returns the case-count scale factor for non-rapid enumerations/loops:
// VERIF_CASES if set, else def.
func Cases(def int) int {
	if v, err := strconv.Atoi(os.Getenv("VERIF_CASES")); err == nil && v > 0 {
		return v
	}
	return def
}

// Prop runs a rapid property: gen draws a case, check judges it (nil = held),
// classify says whether it is non-trivial and which classes it belongs to.
func Prop[C any](t *testing.T, property, test string, gen func(*rapid.T) C, check func(C) *Failure, classify func(C) (bool, []string)) {
	r := Get(property, test)
	rapid.Check(t, func(rt *rapid.T) {
		c := gen(rt)
		f := Guard(func() *Failure { return check(c) })
		nt, cl := classify(c)
		r.Case(c, nt, cl...)
		r.Report(rt, c, f)
	})
}

// Guard turns a panic of the code under test into a judged failure (with the top of the stack as signature
// material), so that a crash is reported with a replay file instead of killing the shard.
func Guard(f func() *Failure) (out *Failure) {
	defer func() {
		if r := recover(); r != nil {
			buf := make([]byte, 6000)
			buf = buf[:runtime.Stack(buf, false)]
			out = Failf("panic", "panic: %v\n%s", r, buf)
		}
	}()
	return f()
}

// Replay re-executes the case of $VERIF_REPLAY without rapid.
func Replay[C any](t *testing.T, property, test string, check func(C) *Failure) {
	var c C
	ok, err := LoadReplay(property, test, &c)
	if err != nil {
		t.Fatalf("cannot load replay: %v", err)
	}
	if !ok {
		t.Skip("no replay file for this test")
	}
	if f := Guard(func() *Failure { return check(c) }); f != nil {
		if isKnown(property, f.Sig) {
			fmt.Printf("VERIF-KNOWN property=%s sig=%s\n", property, f.Sig)
			return
		}
		t.Fatalf("VERIF-FAIL property=%s sig=%s replay=%s\n%s", property, f.Sig, os.Getenv("VERIF_REPLAY"), f.Msg)
	}
}
