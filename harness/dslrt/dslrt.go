// Package dslrt is the synthetic module runtime "verifdsl": a wasm.ModuleFactory whose
// "binary" is a small serialised program. Every effect goes through the real host
// interface (wasm.Call.Do*, SetReturnValue, SkipEmptyOutput, SetPanicError), exactly as
// the wazero host functions do, so the engine under test runs unchanged.
package dslrt

import (
	"context"
	"crypto/sha256"
	"encoding/binary"
	"encoding/json"
	"fmt"
	"math/big"
	"os"
	"sort"
	"strings"

	pbindex "github.com/streamingfast/substreams/pb/sf/substreams/index/v1"
	pbsubstreams "github.com/streamingfast/substreams/pb/sf/substreams/v1"
	"github.com/streamingfast/substreams/wasm"
	"google.golang.org/protobuf/proto"

	"verif/sdsl"
)

const RuntimeName = "verifdsl"

func init() {
	wasm.RegisterModuleFactory(RuntimeName, wasm.ModuleFactoryFunc(newModule))
}

// Read is one read a behaviour performs on its n-th store input.
type Read struct {
	Store int    `json:"store"`
	Fn    string `json:"fn"` // get_first get_last get_at has_first has_last has_at
	Key   string `json:"key"`
	Ord   uint64 `json:"ord,omitempty"`
}

// Behaviour says what one entrypoint does; it is a deterministic function of
// (seed, clock number and id, bytes of every argument, results of the reads).
type Behaviour struct {
	Kind      string    `json:"kind"` // map, store, index
	Seed      uint64    `json:"seed"`
	Sparse    uint64    `json:"sparse,omitempty"`     // map: no output on blocks where prf % Sparse == 0 (0 = always an output)
	SkipEmpty bool      `json:"skip_empty,omitempty"` // map: call skip_empty_output on those blocks
	Reads     []Read    `json:"reads,omitempty"`
	StoreKind sdsl.Kind `json:"store_kind,omitempty"`
	MaxOps    int       `json:"max_ops,omitempty"`
	DelPct    int       `json:"del_pct,omitempty"`
	Keys      []string  `json:"keys,omitempty"` // index: key alphabet
	// DeltaInputs names the inputs that are store deltas: their set:/sum: value tags are stripped before
	// hashing (a squashed set_sum store holds "sum:" where a sequentially built one holds "set:"; the typed value is the same).
	DeltaInputs []string `json:"delta_inputs,omitempty"`
	FailAt      int64    `json:"fail_at,omitempty"` // block number at which the module panics deterministically (0 = never; block 0 cannot fail)
}

// Program is the content of a binary.
type Program struct {
	Seed uint64               `json:"seed"`
	Mods map[string]Behaviour `json:"mods"` // by entrypoint
}

func (p Program) Encode() []byte {
	b, err := json.Marshal(p)
	if err != nil {
		panic(err)
	}
	return b
}

type module struct{ prog Program }
type instance struct{}

func (instance) Cleanup(context.Context) error { return nil }
func (instance) Close(context.Context) error   { return nil }

func newModule(ctx context.Context, code []byte, codeType string, registry *wasm.Registry) (wasm.Module, error) {
	var p Program
	if err := json.Unmarshal(code, &p); err != nil {
		return nil, fmt.Errorf("verifdsl: cannot decode program: %w", err)
	}
	return &module{prog: p}, nil
}

func (m *module) NewInstance(context.Context) (wasm.Instance, error) { return instance{}, nil }
func (m *module) Close(context.Context) error                        { return nil }

func prf(parts ...any) uint64 {
	h := sha256.New()
	for _, p := range parts {
		fmt.Fprintf(h, "%v|", p)
	}
	return binary.LittleEndian.Uint64(h.Sum(nil)[:8])
}

// stream is a deterministic pseudo-random stream derived from a digest.
type stream struct {
	seed []byte
	ctr  uint64
}

func (s *stream) next() uint64 {
	h := sha256.New()
	h.Write(s.seed)
	var b [8]byte
	binary.LittleEndian.PutUint64(b[:], s.ctr)
	h.Write(b[:])
	s.ctr++
	return binary.LittleEndian.Uint64(h.Sum(nil)[:8])
}

func (s *stream) intn(n int) int { return int(s.next() % uint64(n)) }

// StoreKeys/StorePrefixes: alphabet used by synthetic store modules (small, shared prefixes).
var StoreKeys = []string{"a", "ab", "abc", "b", "ba", "c"}
var StorePrefixes = []string{"a", "ab", "b", "c", "zz"}

func number(s *stream, vtype string) string {
	switch vtype {
	case "int64", "bigint":
		return fmt.Sprint(int64(s.intn(41)) - 20)
	case "float64":
		k := int64(s.intn(161)) - 80
		neg := k < 0
		if neg {
			k = -k
		}
		out := fmt.Sprintf("%d.%03d", k/8, (k%8)*125)
		if neg {
			out = "-" + out
		}
		return out
	default:
		u := int64(s.intn(41)-20) * 250000
		neg := u < 0
		if neg {
			u = -u
		}
		out := fmt.Sprintf("%d.%06d", u/1000000, u%1000000)
		if neg {
			out = "-" + out
		}
		return out
	}
}

// Ops derives the store operations of a block from the digest of what the module received.
func Ops(b Behaviour, digest []byte) []sdsl.Op {
	s := &stream{seed: append([]byte("ops"), digest...)}
	maxOps := b.MaxOps
	if maxOps == 0 {
		maxOps = 3
	}
	n := s.intn(maxOps + 1)
	var ops []sdsl.Op
	for i := 0; i < n; i++ {
		ord := uint64(s.intn(6))
		if s.intn(100) < b.DelPct {
			ops = append(ops, sdsl.Op{Ord: ord, Key: sdsl.Bin(StorePrefixes[s.intn(len(StorePrefixes))]), Del: true})
			continue
		}
		o := sdsl.Op{Ord: ord, Key: sdsl.Bin(StoreKeys[s.intn(len(StoreKeys))])}
		if b.StoreKind.Numeric() {
			o.Val = sdsl.Bin(number(s, b.StoreKind.VType))
			if b.StoreKind.Policy == "set_sum" {
				o.Sum = s.intn(3) > 0
			}
		} else {
			o.Val = sdsl.Bin(fmt.Sprintf("v%x", s.next()%4096))
			if s.intn(8) == 0 {
				o.Val = ""
			}
		}
		ops = append(ops, o)
	}
	return ops
}

func isDeltaInput(b Behaviour, name string) bool {
	for _, n := range b.DeltaInputs {
		if n == name {
			return true
		}
	}
	return false
}

// stripTag returns the typed value a module sees: the set:/sum: tag removed and numbers in canonical
// form. A store squashed from partial stores holds "sum:7.25" where a sequentially built one holds the
// module's own text "set:7.250"; the value is the same and a real module parses it.
func stripTag(v []byte) []byte {
	if len(v) >= 4 && (string(v[:4]) == "set:" || string(v[:4]) == "sum:") {
		v = v[4:]
	}
	if len(v) > 0 && len(v) < 64 && (v[0] == '-' || (v[0] >= '0' && v[0] <= '9')) {
		if r, ok := new(big.Rat).SetString(string(v)); ok {
			return []byte(r.RatString())
		}
	}
	return v
}

// normaliseDeltas re-encodes store deltas with the set:/sum: tags removed from the values.
func normaliseDeltas(in []byte) []byte {
	d := &pbsubstreams.StoreDeltas{}
	if err := proto.Unmarshal(in, d); err != nil {
		return in
	}
	var sb strings.Builder
	for _, x := range d.StoreDeltas {
		fmt.Fprintf(&sb, "%d@%d %q %q->%q;", x.Operation, x.Ordinal, x.Key, stripTag(x.OldValue), stripTag(x.NewValue))
	}
	return []byte(sb.String())
}

func (m *module) ExecuteNewCall(ctx context.Context, call *wasm.Call, cached wasm.Instance, arguments []wasm.Argument, argValues map[string][]byte) (inst wasm.Instance, err error) {
	inst = instance{}
	defer func() {
		if r := recover(); r != nil { // a panicking host call aborts the guest call, as with wazero
			err = fmt.Errorf("call: %v", r)
		}
	}()
	b, ok := m.prog.Mods[call.Entrypoint]
	if !ok {
		return inst, fmt.Errorf("could not find entrypoint function %q ", call.Entrypoint)
	}
	num, id := call.Clock.Number, call.Clock.Id
	if b.FailAt != 0 && uint64(b.FailAt) == num {
		call.SetPanicError(fmt.Sprintf("verifdsl: module %s fails deterministically at block %d", call.Entrypoint, num), "verifdsl", 1, 1)
		return inst, nil
	}

	h := sha256.New()
	fmt.Fprintf(h, "%s|%d|%s|", call.Entrypoint, num, id)
	nstores := 0
	for _, a := range arguments {
		switch v := a.(type) {
		case *wasm.ParamsInput:
			fmt.Fprintf(h, "params=%q|", v.Value())
		case *wasm.MapInput, *wasm.StoreDeltaInput, *wasm.SourceInput:
			val, present := argValues[v.Name()]
			if present && val != nil && isDeltaInput(b, v.Name()) {
				val = normaliseDeltas(val)
				if os.Getenv("VERIF_DEBUG_DSL") != "" {
					fmt.Fprintf(os.Stderr, "DSL %s b=%d deltas(%s)=%s\n", call.Entrypoint, num, v.Name(), val)
				}
			}
			if !present || val == nil {
				fmt.Fprintf(h, "%s=nil|", v.Name())
			} else {
				fmt.Fprintf(h, "%s=%d:", v.Name(), len(val))
				h.Write(val)
				h.Write([]byte("|"))
			}
		case *wasm.StoreReaderInput:
			nstores++
		case *wasm.StoreWriterOutput:
		}
	}
	var reads []string
	for _, r := range b.Reads {
		if r.Store >= nstores {
			continue
		}
		var res string
		switch r.Fn {
		case "get_first":
			v, f := call.DoGetFirst(r.Store, r.Key)
			res = fmt.Sprintf("%v:%q", f, stripTag(v))
		case "get_last":
			v, f := call.DoGetLast(r.Store, r.Key)
			res = fmt.Sprintf("%v:%q", f, stripTag(v))
		case "get_at":
			v, f := call.DoGetAt(r.Store, r.Ord, r.Key)
			res = fmt.Sprintf("%v:%q", f, stripTag(v))
		case "has_first":
			res = fmt.Sprint(call.DoHasFirst(r.Store, r.Key))
		case "has_last":
			res = fmt.Sprint(call.DoHasLast(r.Store, r.Key))
		case "has_at":
			res = fmt.Sprint(call.DoHasAt(r.Store, r.Ord, r.Key))
		}
		reads = append(reads, fmt.Sprintf("%d.%s(%s@%d)=%s", r.Store, r.Fn, r.Key, r.Ord, res))
	}
	fmt.Fprintf(h, "reads=%s", strings.Join(reads, ";"))
	digest := h.Sum(nil)

	switch b.Kind {
	case "map":
		if b.Sparse != 0 && prf(b.Seed, "sparse", num, id)%b.Sparse == 0 {
			if b.SkipEmpty {
				call.SkipEmptyOutput()
			}
			return inst, nil
		}
		call.SetReturnValue([]byte(fmt.Sprintf("%s b=%d in=%x r=[%s]", call.Entrypoint, num, digest[:6], strings.Join(reads, ";"))))
	case "index":
		var keys []string
		for i, k := range b.Keys {
			if prf(b.Seed, "key", i, num, id)%3 == 0 {
				keys = append(keys, k)
			}
		}
		sort.Strings(keys)
		out, err := proto.Marshal(&pbindex.Keys{Keys: keys})
		if err != nil {
			return inst, err
		}
		call.SetReturnValue(out)
	case "store":
		for _, o := range Ops(b, digest) {
			sdsl.Apply(call, b.StoreKind, o)
		}
	default:
		return inst, fmt.Errorf("verifdsl: unknown behaviour kind %q", b.Kind)
	}
	return inst, nil
}
