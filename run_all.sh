#!/bin/bash
# run_all.sh [quick|thorough] : run every registered check in order, then validate manifest and evidence
tier=${1:-quick}
cd /verif
fail=0
for p in $(python3 -c "import json;print(' '.join(c['property_id'] for c in json.load(open('MANIFEST.json'))['checks']))"); do
  out=$(./check $p $tier 2>&1); rc=$?
  echo "$out" | grep -E "^property=|^VIOLATION|^KNOWN-FINDING|^INCONCLUSIVE" | cut -c1-220
  [ $rc -ne 0 ] && { echo "!! $p exit $rc"; fail=1; }
done
python3 validate_evidence.py | grep -v " ok$"
exit $fail
